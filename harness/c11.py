"""C11 -- receive-side memory is bounded by the schema before data is accepted."""
from harness import common
from harness import c07
from harness.c07 import tok, S, b128, enc_int, INT, STRING, NEG, FLOAT, LONGINT, LONGNEG, VOCAB, OPEN, CLOSE, ERROR


def claim(ty, size):
    return tok(ty, size)


def run(ctx):
    from harness import c07_impl as I
    ctx.rule = ("(1) policy-unslicer streams in which a STRING/LONGINT/LONGNEG token announces a body of limit+1 .. 2^448-1 bytes under "
                "size-limited tasters, trickled in chunks of 1..4096 bytes: buffer length and skip count compared with the model after "
                "every chunk; (2) the REAL constraint classes (ByteString, Integer, Number, Unicode, ListOf, TupleOf, DictOf, SetOf, nested) "
                "as root constraint of a real Banana: oversize bodies at every leaf position, trickled; high-water mark of len(buffer) "
                "against 65 + the schema's bound; (3) schema isolation, a fixed sweep: a tight schema (every constraint class x position) in force "
                "on one connection while looser constraint objects of every class are built before / after / in mid-message, a loose twin schema "
                "is receiving on another connection, or the same schema object serves two connections: a body the tight schema refuses is "
                "never buffered; (4) over-long token headers (digits only, no type byte) paced in packets of 1..200 bytes at every receive state in "
                "which a header can start: a live connection never holds more than 65 bytes and is ended once 65 header bytes have arrived "
                "(fixed sweep, policy unslicers + real constraints, a subset also against the model chunk by chunk); (5) RemoteCopy attribute "
                "slots, a fixed sweep: every constraint class x plain / Optional / ChoiceOf / Optional(ChoiceOf) as the attribute's constraint "
                "in a stateSchema x position: an oversize body for that attribute is never buffered; (6) RemoteCopy stateSchemas built with "
                "the non-default AttributeDictConstraint options (ignoreUnknown x acceptUnknown) x nesting x attribute names inside / outside "
                "the schema x value shape x pacing, a fixed sweep with a fixed witness: a value the schema does not admit is never buffered "
                "(abandoning the connection is fine here; acceptUnknown=True alone declares no limit for unlisted names: nothing asserted); "
                "non-trivial = distinct run in which at least one oversize body (or an endless header) was announced")
    ctx.assumptions = ["the schema bound B of a real constraint tree is computed by the harness from the constraint objects' public "
                       "attributes (maxLength, maxBytes); index tokens are bounded by RootUnslicer.maxIndexLength",
                       "the tokenizer model is tied to banana.py by the C07 correspondence; here the per-chunk buffer/skip values are compared",
                       "C11_schema_bound_standard_unslicers carries the guard `the model did not abstain in this run`; with a finite sbound the "
                       "abstentions left are value-level (what a reference resolves to, non-ASCII text, float / bool / frozenset members), never "
                       "an unmodelled unslicer (C11_bounded_schema_never_leaves_the_model); the real receiver's high-water mark in such runs is "
                       "covered by the direct oracles only. sbound is None for every schema with a ChoiceOf in a container's slot or a constraint "
                       "whose opentype list is None or names copyable / decimal / set-vocab / add-vocab"]
    ok, log = ctx.coq_build(["props/C11.vo"])
    before = len(ctx.failures)
    model_ok = ok or ctx.coq_build(["lib/BananaRecv.vo"])[0]
    r = ctx.rng

    # ---- (1) trickle runs on the policy unslicers, compared with the model chunk by chunk
    model_cases = []
    n = ctx.n(55, 3000)
    with I.E_quiet():
        paced_long_headers(ctx, I, model_cases)
        for i in range(n):
            limit = r.choice([0, 1, 3, 10, 100])
            where = r.choice(["root", "S", "nested", "index", "discarding", "error"])
            ty = r.choice([STRING, LONGINT, LONGNEG])
            size = r.choice([limit + 1, limit + 2, 1000, 1001, 10 ** 6, 2 ** 64, 2 ** 448 - 1])
            sent = r.choice([0, 1, 5, 64, 65, 66, 300, 5000])
            mode = "any"
            if where == "root":
                mode = "size%d" % limit
                stream = claim(ty, size)
            elif where == "S":
                stream = tok(OPEN, 0) + S(b"S%d" % limit) + enc_int(1) + claim(ty, size)
            elif where == "nested":
                stream = tok(OPEN, 0) + S(b"L") + tok(OPEN, 1) + S(b"S%d" % limit) + claim(ty, size)
            elif where == "index":
                stream = tok(OPEN, 0) + claim(STRING, max(size, 4))          # index tokens: at most 3 bytes
            elif where == "discarding":
                stream = tok(OPEN, 0) + S(b"Z") + claim(ty, size)              # unknown opentype: everything is discarded
            else:
                ec = r.choice([1000, 1001, 2 ** 40, 2 ** 200])
                stream = claim(ERROR, ec)
                size = 1000
            body = bytes(r.randrange(256) for _ in range(min(sent, size)))
            stream += body
            if sent >= size:
                stream += enc_int(7) + tok(CLOSE, 0)
            step = r.choice([1, 1, 7, 64, 65, 4096])
            cs = [step] * (len(stream) // step) + ([len(stream) % step] if len(stream) % step else [])
            ev, snaps, esc = I.run_policy(stream, cs, mode)
            ctx.case(["trickle", where, ty, size, sent, step, limit], nontrivial=True)
            ctx.hist("where", where)
            ctx.hist("claimed", "limit+1" if size == limit + 1 else "2^448-1" if size == 2 ** 448 - 1 else "other")
            if esc:
                ctx.fail("oracle/exception-escaped", "exception escaped dataReceived: %s" % esc, replay=dict(stream=list(stream), chunks=cs, rootmode=mode))
                continue
            hw = max([s_["buf"] for s_ in snaps] or [0])
            bound = 65 + max(limit if where in ("root", "S", "nested") else 3, 1000)
            if where in ("root", "S", "nested", "index", "discarding") and size > max(limit, 3) and hw > 65:
                # the announced body exceeds the limit: it must never be buffered at all (only header bytes may be held)
                ctx.fail("oracle/rejected-body-buffered", "a body that the taster rejects was buffered: high-water %d bytes; %s limit=%d size=%d"
                         % (hw, where, limit, size), replay=dict(stream=list(stream), chunks=cs, rootmode=mode, highwater=hw))
            # (what an abandoned connection still has in its buffer is never read again: only live snapshots count)
            hw_live = max([s_["buf"] for s_ in snaps if not s_["dead"]] or [0])
            if where == "error" and ec > 1000 and (hw_live > 65 or not (snaps and snaps[-1]["dead"])):
                # ERROR is always legal and no schema judges it: SIZE_LIMIT is its only bound, applied when the header is complete
                ctx.fail("oracle/oversized-error-not-refused-at-header", "an ERROR token announcing %d bytes (> SIZE_LIMIT) was not refused when its header "
                         "was complete: high-water %d bytes while the connection was alive, abandoned=%s" % (ec, hw_live, bool(snaps and snaps[-1]["dead"])),
                         replay=dict(stream=list(stream), chunks=cs, rootmode=mode, highwater=hw))
            if hw >= bound:
                ctx.fail("oracle/buffer-exceeds-bound", "buffer high-water %d >= 65 + max(limit, SIZE_LIMIT) = %d; %s" % (hw, bound, where),
                         replay=dict(stream=list(stream), chunks=cs, rootmode=mode, highwater=hw))
            if len(cs) <= (300 if ctx.tier == "quick" else 700):
                model_cases.append((stream, cs, mode, ev, snaps))
        real_constraints(ctx, I)
        if model_ok:
            from harness import c07_std
            c07_std.std_correspondence(ctx, I, ctx.n(35, 1500), label="C11_std")
    if model_ok:
        schema_bounds(ctx)
    ctx.sample(dict(kind="trickle", stream=list(model_cases[0][0][:80]), chunks=model_cases[0][1][:10], rootmode=model_cases[0][2]))
    if model_ok:
        c07.correspond(ctx, model_cases)
    if not ok and len(ctx.failures) == before:
        ctx.fail("proof-broken", "theorem closure props/C11.vo no longer builds: " + log[-2500:], replay=dict(log=log[-6000:]), has_input=False)


# ---------------------------------------------------------------------------------------------
def paced_long_headers(ctx, I, model_cases):
    """`a header longer than 64 bytes ends the connection` / `decides after reading at most 65 bytes`, for EVERY pacing: a token header
    (base-128 digits, all below 0x80) that does not end, delivered in packets of 1 .. 200 bytes, at every receive state in which a
    header can start (fresh connection, inside a sequence after a complete token, index position of an OPEN, while a sequence is
    being discarded, right after a refused body has been skipped), the bytes before it in a packet of their own or in the first
    header packet, optionally ended by a type byte after 70 digits.  Fixed sweep (no random choice).  While the connection is alive
    it never holds more than 65 bytes, and once 65 header bytes have been delivered it has been dropped.  A subset goes to the
    per-chunk correspondence with the Coq tokenizer model as well."""
    from foolscap.constraint import IConstraint, ByteStringConstraint
    from foolscap.schema import ListOf
    positions = [("fresh", b""),
                 ("in-list-after-token", tok(OPEN, 0) + S(b"L") + enc_int(5)),
                 ("index", tok(OPEN, 0)),
                 ("discarding", tok(OPEN, 0) + S(b"Z")),
                 ("after-skipped-body", tok(OPEN, 0) + S(b"S3") + enc_int(1) + claim(STRING, 10) + b"0123456789")]
    ND = 200

    def judge(kind, desc, prefixlen, sizes, bufs, deads, rp):
        """sizes[i] = bytes in packet i, bufs[i] / deads[i] = len(buffer) / abandoned after packet i"""
        fed = 0
        for i, n_ in enumerate(sizes[:len(bufs)]):
            fed += n_
            digits = max(0, fed - prefixlen)
            if not deads[i] and bufs[i] > 65:
                ctx.fail("oracle/overlong-header/held-beyond-65-bytes", "%s: %d bytes of an unfinished token header (no type byte yet) are held by a live "
                         "connection after packet %d (%d header bytes delivered so far): the receiver must decide within 65 bytes" % (desc, bufs[i], i, digits),
                         replay=dict(rp, packet_index=i, held=bufs[i], header_bytes_delivered=digits))
                return
            if digits >= 65 and not deads[i]:
                ctx.fail("oracle/overlong-header/connection-not-ended", "%s: %d header bytes without a type byte have been delivered (packet %d) and the "
                         "connection is still alive, holding %d bytes: a header longer than 64 bytes ends the connection" % (desc, digits, i, bufs[i]),
                         replay=dict(rp, packet_index=i, held=bufs[i], header_bytes_delivered=digits))
                return

    for pname, prefix in positions:
        for digit in (0x01, 0x00, 0x7f):
            for packet in (1, 5, 13, 64, 65, 200):
                for joined in (False, True):
                    for ended in (False, True):
                        if ended and (digit != 0x01 or packet in (65, 200)):
                            continue
                        if joined and not prefix:
                            continue
                        nd = 70 if ended else ND
                        stream = prefix + bytes([digit]) * nd + (bytes([INT]) if ended else b"")
                        rest = len(stream) - len(prefix)
                        cs = [packet] * (rest // packet) + ([rest % packet] if rest % packet else [])
                        if joined:
                            cs[0] += len(prefix)
                        elif prefix:
                            cs = [len(prefix)] + cs
                        ev, snaps, esc = I.run_policy(stream, cs, "any")
                        ctx.case(["paced-long-header", pname, digit, packet, joined, ended], nontrivial=True)
                        ctx.hist("where", "longheader")
                        ctx.hist("paced_long_header", pname)
                        desc = "policy unslicers, header starts %s (%d bytes before it, %s), digit 0x%02x, packets of %d" % (
                            pname, len(prefix), "in the first header packet" if joined else "in a packet of their own", digit, packet)
                        rp = dict(stream=list(stream), chunks=cs, rootmode="any")
                        if esc:
                            ctx.fail("oracle/exception-escaped", "exception escaped dataReceived: %s" % esc, replay=rp)
                            continue
                        judge("policy", desc, len(prefix), cs, [s_["buf"] for s_ in snaps], [s_["dead"] for s_ in snaps], rp)
                        if digit == 0x01 and packet in (5, 64, 65) and len(cs) <= 300:
                            model_cases.append((stream, cs, "any", ev, snaps))
    # the same under REAL constraints (the schema in force is irrelevant to the header cap)
    for cname, mk, prefix in (("bytes<=10 as root constraint", lambda: ByteStringConstraint(maxLength=10), b""),
                              ("ListOf(bytes<=10) after one item", lambda: ListOf(ByteStringConstraint(maxLength=10), maxLength=3),
                               tok(OPEN, 0) + S(b"list") + S(b"a")),
                              ("no constraint", lambda: None, b"")):
        for packet in (1, 13, 64, 65):
            p = I.RealBanana()
            c = mk()
            if c is not None:
                p.receiveStack[-1].constraint = IConstraint(c)
            sizes, bufs, deads, esc = [], [], [], None
            try:
                if prefix:
                    p.dataReceived(prefix)
                    sizes.append(len(prefix)); bufs.append(len(p.buffer)); deads.append(bool(p.connectionAbandoned))
                left = ND
                while left > 0:
                    k = min(packet, left)
                    p.dataReceived(b"\x01" * k)
                    left -= k
                    sizes.append(k); bufs.append(len(p.buffer)); deads.append(bool(p.connectionAbandoned))
            except Exception as e:
                esc = "%s: %s" % (type(e).__name__, e)
            ctx.case(["paced-long-header-real", cname, packet], nontrivial=True)
            ctx.hist("paced_long_header", "real:" + cname.split(" ")[0])
            rp = dict(constraint=cname, prefix=list(prefix), digit=1, packet=packet, header_bytes=ND)
            if esc:
                ctx.fail("oracle/exception-escaped", "exception escaped dataReceived (%s): %s" % (cname, esc), replay=rp)
            else:
                judge("real", "real Banana, %s, digit 0x01, packets of %d" % (cname, packet), len(prefix), sizes, bufs, deads, rp)


# ---------------------------------------------------------------------------------------------
def real_constraints(ctx, I):
    """the real constraint classes as root constraint of a real Banana"""
    from foolscap.constraint import IConstraint, ByteStringConstraint, IntegerConstraint, NumberConstraint
    from foolscap.schema import ListOf, TupleOf, DictOf, SetOf, UnicodeConstraint, BooleanConstraint, ChoiceOf
    from foolscap import banana
    r = ctx.rng

    def leafs(k=None, all_=False):
        if k is None:
            k = r.choice([0, 1, 5, 40, 300])
        table = ([("bytes", ByteStringConstraint(maxLength=k), k), ("int", IntegerConstraint(maxBytes=max(4, k)), max(4, k)),
                         ("int32", IntegerConstraint(maxBytes=-1), 0), ("number", NumberConstraint(maxBytes=max(4, k)), max(4, k)),
                         ("unicode", UnicodeConstraint(maxLength=k), 6 * k), ("bool", BooleanConstraint(), 0),
                         # alternatives: the bound is the largest any alternative admits; an OPEN that one alternative admits
                         # (None, bool, unicode) must not switch the others' limits off
                         ("choice-bytes-none", ChoiceOf(ByteStringConstraint(maxLength=k), None), k),
                         ("choice-bytes-bool", ChoiceOf(ByteStringConstraint(maxLength=k), bool), k),
                         ("choice-unicode-int", ChoiceOf(UnicodeConstraint(maxLength=k), int), max(6 * k, 1024)),
                         ("choice-int-none", ChoiceOf(IntegerConstraint(maxBytes=max(4, k)), None), max(4, k))])
        return table if all_ else r.choice(table)

    def tree(d):
        """-> (description, constraint, bound on accepted body sizes, path to the first leaf as a list of opentypes)"""
        if d <= 0 or r.random() < 0.35:
            name, c, b = leafs()
            return name, c, b, []
        k = r.choice(["list", "tuple", "dict", "set", "degenerate"])
        if k == "degenerate":
            # containers that admit no element at all: whatever is announced inside them is refused unbuffered
            return r.choice([("TupleOf()", TupleOf(), 0, [b"tuple"]), ("ListOf(bytes,maxLength=0)", ListOf(ByteStringConstraint(5), maxLength=0), 0, [b"list"]),
                             ("SetOf(bytes,maxLength=0)", SetOf(ByteStringConstraint(5), maxLength=0), 0, [b"set"]),
                             ("DictOf(bytes,bytes,maxKeys=0)", DictOf(ByteStringConstraint(5), ByteStringConstraint(5), maxKeys=0), 0, [b"dict"])])
        n1, c1, b1, p1 = tree(d - 1)
        if k == "list":
            return "ListOf(%s)" % n1, ListOf(c1, maxLength=r.choice([1, 3])), b1, [b"list"] + p1
        if k == "set":
            return "SetOf(%s)" % n1, SetOf(c1, maxLength=3), b1, [b"set"] + p1
        if k == "tuple":
            n2, c2, b2 = leafs()
            return "TupleOf(%s,%s)" % (n1, n2), TupleOf(c1, c2), max(b1, b2), [b"tuple"] + p1
        n2, c2, b2 = leafs()
        return "DictOf(%s,%s)" % (n1, n2), DictOf(c1, c2, maxKeys=2), max(b1, b2), [b"dict"] + p1

    last = {}

    def trial(name, c, B, path, fixed=None):
        """fixed = (open_or_None, ty, size, sent, step): a deterministic case; otherwise drawn from the generator"""
        p = I.RealBanana()
        p.receiveStack[-1].constraint = IConstraint(c)
        idxmax = p.rootUnslicer.maxIndexLength
        bound = 65 + max(B, idxmax, 1000)
        # valid prefix down to the first leaf position
        prefix = b""
        for depth, ot in enumerate(path):
            prefix += tok(OPEN, depth) + S(ot)
        injected_open = False
        leafkind = (name.split("(")[-1].split(",")[0].rstrip(")") if path else name) or "none"
        if "maxLength=0" in name or "maxKeys=0" in name or name.endswith("TupleOf()") or "TupleOf()" in name:
            leafkind = "none"
        if fixed is not None:
            if fixed[0] is not None:
                prefix += tok(OPEN, len(path)) + S(fixed[0])
                injected_open = fixed[0] != b"unicode" or leafkind != "unicode"
        elif leafkind == "unicode" and r.random() < 0.7:
            prefix += tok(OPEN, len(path)) + S(b"unicode")
        elif r.random() < 0.35:
            # an OPEN of some type at the leaf position: whether the schema admits it or not, what is announced INSIDE it is still
            # bounded by the schema (an inadmissible OPEN is discarded as a whole)
            prefix += tok(OPEN, len(path)) + S(r.choice([b"unicode", b"none", b"boolean", b"decimal", b"list", b"tuple", b"dict", b"set",
                                                           b"immutable-set", b"copyable", b"reference"]))
            injected_open = True
        if fixed is not None:
            ty, size, sent, step = fixed[1:]
        else:
            ty = r.choice([STRING, LONGINT, LONGNEG])
            size = r.choice([B + 1, B + 2, max(B, idxmax) + 1, 10 ** 6, 10 ** 7, 2 ** 448 - 1])
            if injected_open:
                size = max(size, 2000)        # beyond every index-token limit too
            sent = min(size, r.choice([200000, 30000, 5000]))
            step = r.choice([4096, 1000, 10000])
        hw = 0
        esc = None
        try:
            p.dataReceived(prefix)
            p.dataReceived(tok(ty, size))
            hw = len(p.buffer)
            left = sent
            while left > 0 and not p.connectionAbandoned:
                k = min(step, left)
                p.dataReceived(b"x" * k)
                left -= k
                hw = max(hw, len(p.buffer))
        except Exception as e:
            esc = "%s: %s" % (type(e).__name__, e)
        ctx.case(["real-constraint", name, ty, size, sent, step], nontrivial=True)
        ctx.hist("real_leaf", leafkind)
        if esc:
            ctx.fail("oracle/exception-escaped", "exception escaped dataReceived under constraint %s: %s" % (name, esc),
                     replay=dict(constraint=name, ty=ty, size=size))
        elif hw >= bound:
            sig = "oracle/unbounded-buffering/unicode-body" if leafkind == "unicode" else "oracle/unbounded-buffering/%s" % leafkind
            ctx.fail(sig, "under the size-bounded constraint %s (bound on accepted bodies %d bytes) the receiver held %d bytes "
                     "(>= 65 + max(bound, index limit %d, SIZE_LIMIT)) after a %s token announcing %d bytes" % (name, B, hw, idxmax, hex(ty), size),
                     replay=dict(constraint=name, ty=ty, size=size, sent=sent, step=step, highwater=hw, bound=bound))
        last.update(name=name, ty=ty, size=size, hw=hw, bound=bound)

    # fixed sweep: every leaf kind, bare / in a list / as a dict key / second in a tuple is not the first leaf so not here, every sized
    # token kind, two announced sizes; detection of a weakened leaf taster does not depend on the random stream
    for k in (5, 300):
        for lname, lc, lb in leafs(k, all_=True):
            for pos in ("bare", "list", "dict-key"):
                for ty_ in (STRING, LONGINT, LONGNEG):
                    for size_ in (10 ** 6, 2 ** 448 - 1):
                        lname2, lc2, lb2 = [x for x in leafs(k, all_=True) if x[0] == lname][0]     # a fresh constraint object per trial
                        if pos == "bare":
                            args = (lname2, lc2, lb2, [])
                        elif pos == "list":
                            args = ("ListOf(%s)" % lname2, ListOf(lc2, maxLength=3), lb2, [b"list"])
                        else:
                            args = ("DictOf(%s,bytes)" % lname2, DictOf(lc2, ByteStringConstraint(maxLength=5), maxKeys=2), max(lb2, 5), [b"dict"])
                        trial(*args, fixed=(None, ty_, size_, 5000, 1000))
                        if "unicode" in lname2 and size_ == 10 ** 6:
                            lname3, lc3, lb3 = [x for x in leafs(k, all_=True) if x[0] == lname][0]
                            a3 = (lname3, lc3, lb3, []) if pos == "bare" else \
                                ("ListOf(%s)" % lname3, ListOf(lc3, maxLength=3), lb3, [b"list"]) if pos == "list" else \
                                ("DictOf(%s,bytes)" % lname3, DictOf(lc3, ByteStringConstraint(maxLength=5), maxKeys=2), max(lb3, 5), [b"dict"])
                            trial(*a3, fixed=(b"unicode", ty_, size_, 5000, 1000))
    n = ctx.n(120, 2500)
    for i in range(n):
        trial(*tree(r.choice([0, 1, 2, 3])))
    name, ty, size, hw, bound = last["name"], last["ty"], last["size"], last["hw"], last["bound"]
    ctx.sample(dict(kind="real-constraint", constraint=name, token=hex(ty), announced=size, highwater=hw, bound=bound))
    full_containers(ctx, I)
    member_counts(ctx, I)
    choice_open_sweep(ctx, I)
    choice_admits_copyable(ctx, I)
    copyable_attribute_slots(ctx, I)
    copyable_unknown_attribute_options(ctx, I)
    slot_alternation(ctx, I)
    schema_isolation(ctx, I)
    pb_index_tokens(ctx)
    if ctx.build_ok or ctx.coq_build(["lib/OpenerProofs.vo"])[0]:
        opener_correspondence(ctx)
    # negotiation phase: more than 4096 bytes without a blank line end the attempt
    import foolscap.negotiate as neg
    for total in (4096, 4099, 4100, 10000):
        nobj = neg.Negotiation()
        nobj.isClient = False
        log_ = []

        class T:
            def write(self, d):
                log_.append(("w", d))

            def loseConnection(self):
                log_.append(("lose",))
        nobj.transport = T()
        nobj.negotiationFailed = lambda: None
        hwn = 0
        fed = 0
        while fed < total and nobj.receive_phase != neg.ABANDONED and ("lose",) not in log_:
            k = min(1000, total - fed)
            nobj.dataReceived(b"A" * k)
            fed += k
            hwn = max(hwn, len(nobj.buffer))
        ctx.case(["negotiation-cap", total], nontrivial=True)
        lost = ("lose",) in log_
        # without a terminator the attempt is abandoned once 4096 + 4 bytes are buffered (see negotiate.py)
        if (total >= 4100) != lost or hwn > 4100 + 1000:
            ctx.fail("oracle/negotiation-cap", "negotiation buffer: fed %d bytes without a blank line: connection dropped=%s, high-water %d"
                     % (total, lost, hwn), replay=dict(total=total))
    negotiation_coalesced(ctx)


def full_containers(ctx, I):
    """a container that already holds as many items as its constraint admits must refuse one more item when the item's HEADER arrives,
    even if the item alone would satisfy the item constraint: nothing of its body may be buffered"""
    from foolscap.constraint import IConstraint, ByteStringConstraint
    from foolscap.schema import ListOf, TupleOf, DictOf, SetOf
    r = ctx.rng
    L = 1000
    leaf = lambda: ByteStringConstraint(maxLength=L)
    for kind in ("list", "set", "dict-key", "dict-value-after-full", "tuple"):
        for k in (0, 1, 3):
            for ty, size in ((STRING, L), (STRING, 500), (STRING, 66), (LONGINT, 200)):
                if kind == "list":
                    c, name = ListOf(leaf(), maxLength=k), "ListOf(bytes<=%d, maxLength=%d)" % (L, k)
                    pre = tok(OPEN, 0) + S(b"list") + b"".join(S(b"item%d" % i) for i in range(k))
                elif kind == "set":
                    c, name = SetOf(leaf(), maxLength=k), "SetOf(bytes<=%d, maxLength=%d)" % (L, k)
                    pre = tok(OPEN, 0) + S(b"set") + b"".join(S(b"item%d" % i) for i in range(k))
                elif kind == "dict-key":
                    c, name = DictOf(leaf(), leaf(), maxKeys=k), "DictOf(bytes, bytes, maxKeys=%d)" % k
                    pre = tok(OPEN, 0) + S(b"dict") + b"".join(S(b"key%d" % i) + S(b"val%d" % i) for i in range(k))
                elif kind == "dict-value-after-full":
                    if k == 0:
                        continue
                    c, name = DictOf(leaf(), leaf(), maxKeys=k - 1), "DictOf(bytes, bytes, maxKeys=%d)" % (k - 1)
                    pre = tok(OPEN, 0) + S(b"dict") + b"".join(S(b"key%d" % i) + S(b"val%d" % i) for i in range(k - 1))
                else:
                    c, name = TupleOf(*[leaf() for _ in range(k)]), "TupleOf(%d x bytes<=%d)" % (k, L)
                    pre = tok(OPEN, 0) + S(b"tuple") + b"".join(S(b"item%d" % i) for i in range(k))
                if ty == LONGINT and kind != "list":
                    continue
                p = I.RealBanana()
                p.receiveStack[-1].constraint = IConstraint(c)
                hw, esc = 0, None
                step = r.choice([50, 64, 200])
                try:
                    p.dataReceived(pre)
                    p.dataReceived(tok(ty, size))
                    hw = len(p.buffer)
                    left = size
                    while left > 0 and not p.connectionAbandoned:
                        n_ = min(step, left)
                        p.dataReceived(b"y" * n_)
                        left -= n_
                        hw = max(hw, len(p.buffer))
                except Exception as e:
                    esc = "%s: %s" % (type(e).__name__, e)
                ctx.case(["full-container", kind, k, ty, size, step], nontrivial=True)
                ctx.hist("full_container", kind)
                if esc:
                    ctx.fail("oracle/exception-escaped", "exception escaped dataReceived under %s: %s" % (name, esc), replay=dict(constraint=name))
                elif hw > 65:
                    ctx.fail("oracle/full-container-buffers-extra-item", "%s already held all the items it admits (%d sent), yet %d bytes of one more "
                             "item (a %s token announcing %d bytes, acceptable to the item constraint alone) were buffered instead of being refused "
                             "at the header" % (name, k, hw, hex(ty), size), replay=dict(constraint=name, kind=kind, k=k, ty=ty, size=size, step=step, highwater=hw))


def schema_bounds(ctx):
    """lib/StdUnsl.sbound (the bound of props/C11.v's C11_schema_bound_standard_unslicers, computed in Coq from the taster tables of
    the live constraint objects) against the bound this harness derives from the constraints' public attributes"""
    from harness import c07_std
    from foolscap.constraint import ByteStringConstraint, IntegerConstraint, NumberConstraint, Any
    from foolscap.schema import ListOf, TupleOf, DictOf, SetOf, UnicodeConstraint, BooleanConstraint, ChoiceOf
    from foolscap.slicers.none import Nothing
    items = []
    for k in ((0, 5, 300) if ctx.tier == "quick" else (0, 1, 5, 40, 300)):
        leaves = [("bytes<=%d" % k, lambda: ByteStringConstraint(maxLength=k), k), ("int<=%dB" % max(4, k), lambda: IntegerConstraint(maxBytes=max(4, k)), max(4, k)),
                  ("int32", lambda: IntegerConstraint(maxBytes=-1), 0), ("number", lambda: NumberConstraint(maxBytes=max(4, k)), max(4, k)),
                  ("unicode<=%d" % k, lambda: UnicodeConstraint(maxLength=k), 6 * k), ("bool", lambda: BooleanConstraint(), 0), ("none", lambda: Nothing(), 0),
                  ("choice", lambda: ChoiceOf(ByteStringConstraint(maxLength=k), None, IntegerConstraint(maxBytes=8)), max(k, 8)),
                  ("bytes-unbounded", lambda: ByteStringConstraint(maxLength=None), None), ("any", lambda: Any(), None),
                  ("unicode-unbounded", lambda: UnicodeConstraint(maxLength=None), None)]
        omax = lambda a, b: None if a is None or b is None else max(a, b)
        for n1, m1, b1 in leaves:
            # a ChoiceOf has a finite bound only as the ROOT constraint: in a container's slot it admits OPEN copyable (opentypes = None)
            ib1 = None if n1 == "choice" else b1
            items.append((n1, m1(), b1))
            items.append(("ListOf(%s)" % n1, ListOf(m1(), maxLength=3), ib1))
            items.append(("SetOf(%s)" % n1, SetOf(m1(), maxLength=3), ib1))
            for n2, m2, b2 in leaves[:3]:
                items.append(("TupleOf(%s,%s)" % (n1, n2), TupleOf(m1(), m2()), omax(ib1, b2)))
                items.append(("DictOf(%s,ListOf(%s))" % (n2, n1), DictOf(m2(), ListOf(m1(), maxLength=2), maxKeys=2), omax(ib1, b2)))
    terms = [c07_std.to_coq(c) for _, c, _ in items]
    body = ("Local Open Scope Z_scope.\nEval vm_compute in map (fun c => match sbound c with Some b => b | None => -1 end) [\n%s].\n" % ";\n".join(terms))
    try:
        (vals,) = ctx.coq_eval("C11_sbound", body, requires=["Verif.lib.PyLite", "Verif.gen.BananaGen", "Verif.lib.Token", "Verif.lib.Recv", "Verif.lib.Unsl", "Verif.lib.StdUnsl"])
    except common.CoqEvalError as e:
        ctx.fail("correspondence-broken", "sbound could not be evaluated: " + str(e)[-1200:], has_input=False)
        return
    bad = 0
    for (name, c, want), got in zip(items, vals):
        ctx.traces += 1
        w = -1 if want is None else want
        if got != w:
            bad += 1
            if bad <= 2:
                ctx.fail("correspondence/schema-bound", "the bound computed in Coq from the taster tables of %s is %s, the constraint's public limits give %s"
                         % (name, "none" if got == -1 else got, "none" if want is None else want), replay=dict(constraint=name, coq=got, harness=want), has_input=False)
    ctx.extra["schema_bound_cases"] = len(items)
    ctx.extra["schema_bound_disagreements"] = bad
    # the witness of props/C11.v C11_taster_only_bound_refuted, on the LIVE constraint objects: the taster-only bound is finite, the
    # list's slot admits OPEN copyable and the model leaves its fragment there (98 = abstains), sbound answers None
    wit = c07_std.to_coq(ListOf(ChoiceOf(ByteStringConstraint(3), UnicodeConstraint(3))))
    body = ("Local Open Scope Z_scope.\nDefinition W := %s.\n"
            "Eval vm_compute in [match sbound_tasters W with Some b => b | None => -1 end; match sbound W with Some b => b | None => -1 end;\n"
            "  match sapply_all 13 30 (sctx0 (Some W)) [(tok_OPEN, 0, []); (tok_STRING, 4, [108; 105; 115; 116])] with\n"
            "  | UOk _ c _ => match std_do_open (map (uf_st sfr) (u_stack sfr c)) [str_copyable] with OExc k => k | OViol => -3 | _ => -1 end\n"
            "  | UFatal _ _ => -2 end;\n"
            "  match sbound_tasters rf_list, sbound_tasters W with Some a, Some b => a - b | _, _ => -1 end].\n" % wit)
    try:
        (w,) = ctx.coq_eval("C11_refuted_witness", body, requires=["Verif.lib.PyLite", "Verif.gen.BananaGen", "Verif.lib.Token", "Verif.lib.Recv", "Verif.lib.Unsl",
                                                                     "Verif.lib.StdUnsl", "Verif.lib.StdUnslProofs"])
        ctx.traces += 1
        if list(w) != [18, -1, 98, 0]:
            ctx.fail("correspondence/refuted-witness", "the witness of C11_taster_only_bound_refuted evaluated on the live constraint objects gives %r, "
                     "expected [taster-only bound 18, sbound none (-1), doOpen(copyable) abstains (98), same as the Coq constant (0)]" % (list(w),),
                     replay=dict(got=list(w), term=wit), has_input=False)
    except common.CoqEvalError as e:
        ctx.fail("correspondence-broken", "the refuted-witness evaluation failed: " + str(e)[-1200:], has_input=False)


def slot_alternation(ctx, I):
    """containers whose slots carry DIFFERENT constraints (the key and the value of a dict, the positions of a tuple): the limit in
    force for a token is the one of ITS slot, whatever the previous members were -- in particular members that are falsy or None
    (None, 0, b"", False, "", (), an empty list).  A body the slot's constraint refuses must not be buffered (only header bytes)."""
    from foolscap.constraint import IConstraint, ByteStringConstraint, IntegerConstraint, Any
    from foolscap.schema import ListOf, TupleOf, DictOf, ChoiceOf, BooleanConstraint, UnicodeConstraint
    r = ctx.rng
    NONE = tok(OPEN, 7) + S(b"none") + tok(CLOSE, 7)
    FALSE = tok(OPEN, 7) + S(b"boolean") + enc_int(0) + tok(CLOSE, 7)
    EMPTYTEXT = tok(OPEN, 7) + S(b"unicode") + S(b"") + tok(CLOSE, 7)
    EMPTYTUPLE = tok(OPEN, 7) + S(b"tuple") + tok(CLOSE, 7)
    prev = [("None", NONE), ("0", enc_int(0)), ("b''", S(b"")), ("False", FALSE), ("''", EMPTYTEXT), ("()", EMPTYTUPLE), ("b'k'", S(b"k")), ("5", enc_int(5))]
    loose = lambda: ChoiceOf(None, ByteStringConstraint(maxLength=300), IntegerConstraint(maxBytes=8), BooleanConstraint(), UnicodeConstraint(maxLength=40),
                             TupleOf())
    tight = lambda: ByteStringConstraint(maxLength=10)
    cases = []
    for pname, pbytes in prev:
        # dict: loose key, tight value: after the key, a value of 300 / 10**6 bytes is refused on its header
        cases.append(("DictOf(loose, bytes<=10): key %s then an oversize VALUE" % pname, lambda: DictOf(loose(), tight(), maxKeys=5), tok(OPEN, 0) + S(b"dict") + pbytes))
        # dict: tight key, loose value: after a complete pair, the next KEY is refused on its header
        cases.append(("DictOf(bytes<=10, loose): pair (b'a', %s) then an oversize KEY" % pname, lambda: DictOf(tight(), loose(), maxKeys=5),
                      tok(OPEN, 0) + S(b"dict") + S(b"a") + pbytes))
        # tuple: (loose, tight) and (tight, loose, tight)
        cases.append(("TupleOf(loose, bytes<=10): item %s then an oversize second item" % pname, lambda: TupleOf(loose(), tight()), tok(OPEN, 0) + S(b"tuple") + pbytes))
        cases.append(("TupleOf(bytes<=10, loose, bytes<=10): items b'a', %s then an oversize third item" % pname, lambda: TupleOf(tight(), loose(), tight()),
                      tok(OPEN, 0) + S(b"tuple") + S(b"a") + pbytes))
        # two complete pairs first
        cases.append(("DictOf(loose, bytes<=10): pairs (%s, b'v'), (b'q', b'w') then key b'z' and an oversize VALUE" % pname, lambda: DictOf(loose(), tight(), maxKeys=5),
                      tok(OPEN, 0) + S(b"dict") + pbytes + S(b"v") + S(b"q") + S(b"w") + S(b"z")))
    for desc, mk, pre in cases:
        for ty, size in ((STRING, 300), (STRING, 11), (STRING, 10 ** 6), (LONGINT, 200)):
            for step in (1, 7, 64):
                p = I.RealBanana()
                p.receiveStack[-1].constraint = IConstraint(mk())
                hw, esc = 0, None
                try:
                    p.dataReceived(pre)
                    depth_before = len(p.receiveStack)
                    p.dataReceived(tok(ty, size))
                    hw = len(p.buffer)
                    left = min(size, 400)
                    while left > 0 and not p.connectionAbandoned:
                        n_ = min(step, left)
                        p.dataReceived(b"y" * n_)
                        left -= n_
                        hw = max(hw, len(p.buffer))
                except Exception as e:
                    esc = "%s: %s" % (type(e).__name__, e)
                ctx.case(["slot-alternation", desc, ty, size, step], nontrivial=True)
                ctx.hist("slot_alternation", desc.split(":")[0])
                if esc:
                    ctx.fail("oracle/exception-escaped", "exception escaped dataReceived (%s): %s" % (desc, esc), replay=dict(case=desc))
                elif depth_before < 2 or p.connectionAbandoned and hw <= 65:
                    continue            # the prefix itself was refused: nothing to measure
                elif hw > 65:
                    ctx.fail("oracle/rejected-body-buffered/wrong-slot", "%s: a %s token announcing %d bytes, which the constraint of ITS slot (bytes <= 10) refuses, "
                             "was buffered (%d bytes held, chunks of %d): the taster of another slot was applied"
                             % (desc, hex(ty), size, hw, step), replay=dict(case=desc, ty=ty, size=size, step=step, highwater=hw))
                    break


def schema_isolation(ctx, I):
    """the limit in force is the one of the constraint object IN FORCE ON THIS CONNECTION: it does not depend on which other constraint
    objects the process has built before, afterwards or in the middle of the message (control: none of this), nor on what another connection is receiving under a
    looser schema of the same shape, nor on another connection that uses the very same schema object.  Fixed sweep (no random choice):
    every constraint class as the tight leaf x position x kind of disturbance x sized token kind x announced size; an announced body
    that the tight schema refuses must not be buffered (only header bytes may be held)."""
    from foolscap.constraint import IConstraint, ByteStringConstraint, IntegerConstraint, NumberConstraint, Any
    from foolscap.schema import ListOf, TupleOf, DictOf, SetOf, UnicodeConstraint, BooleanConstraint, ChoiceOf
    from foolscap.slicers.none import Nothing
    T = lambda loose, v: None if loose else v
    # (name, maker(loose), OPEN to send at the leaf position or None): every limit of the tight form is <= 40 bytes
    leaves = [("bytes<=10", lambda lo: ByteStringConstraint(maxLength=T(lo, 10)), None),
              ("int<=8B", lambda lo: IntegerConstraint(maxBytes=T(lo, 8)), None),
              ("int32", lambda lo: IntegerConstraint(maxBytes=T(lo, -1)), None),
              ("number<=8B", lambda lo: NumberConstraint(maxBytes=T(lo, 8)), None),
              ("unicode<=5", lambda lo: UnicodeConstraint(maxLength=T(lo, 5)), b"unicode"),
              ("bool", lambda lo: (Any() if lo else BooleanConstraint()), b"boolean"),
              ("none", lambda lo: (Any() if lo else Nothing()), None),
              ("choice(bytes<=10,None)", lambda lo: ChoiceOf(ByteStringConstraint(maxLength=T(lo, 10)), None), None),
              ("choice(int<=8B,unicode<=5)", lambda lo: ChoiceOf(IntegerConstraint(maxBytes=T(lo, 8)), UnicodeConstraint(maxLength=T(lo, 5))), None)]
    small = lambda lo: ByteStringConstraint(maxLength=T(lo, 5))
    big = lambda lo: ByteStringConstraint(maxLength=T(lo, 1000))
    O = lambda ot: tok(OPEN, 0) + S(ot)
    schemas = []
    for lname, mk, ot in leaves:
        inner = (tok(OPEN, 1) + S(ot)) if ot else b""
        schemas.append((lname, mk, inner))
        schemas.append(("ListOf(%s)" % lname, (lambda lo, mk=mk: ListOf(mk(lo), maxLength=T(lo, 3))), O(b"list") + inner))
        schemas.append(("DictOf(bytes<=5,%s) value" % lname, (lambda lo, mk=mk: DictOf(small(lo), mk(lo), maxKeys=T(lo, 2))), O(b"dict") + S(b"k") + inner))
        schemas.append(("TupleOf(bytes<=5,%s) second" % lname, (lambda lo, mk=mk: TupleOf(small(lo), mk(lo))), O(b"tuple") + S(b"k") + inner))
    # limits of the CONTAINER: one more item than it admits, each item acceptable to the item constraint alone
    schemas.append(("ListOf(bytes<=1000,maxLength=1) full", lambda lo: ListOf(big(lo), maxLength=T(lo, 1)), O(b"list") + S(b"a")))
    schemas.append(("SetOf(bytes<=1000,maxLength=1) full", lambda lo: SetOf(big(lo), maxLength=T(lo, 1)), O(b"set") + S(b"a")))
    schemas.append(("DictOf(bytes<=1000,bytes<=1000,maxKeys=1) full", lambda lo: DictOf(big(lo), big(lo), maxKeys=T(lo, 1)), O(b"dict") + S(b"a") + S(b"b")))
    schemas.append(("TupleOf(bytes<=1000) full", lambda lo: (TupleOf(big(lo), big(lo)) if lo else TupleOf(big(lo))), O(b"tuple") + S(b"a")))

    def siblings():
        """one looser sibling of every constraint class, and the shorthand forms: built, never installed anywhere"""
        return [IntegerConstraint(maxBytes=300), IntegerConstraint(maxBytes=10 ** 6), IntegerConstraint(maxBytes=None),
                NumberConstraint(maxBytes=300), NumberConstraint(maxBytes=None), ByteStringConstraint(maxLength=10 ** 7), ByteStringConstraint(maxLength=None),
                UnicodeConstraint(maxLength=10 ** 6), UnicodeConstraint(maxLength=None), BooleanConstraint(), Nothing(), Any(),
                ListOf(ByteStringConstraint(maxLength=None), maxLength=10 ** 6), ListOf(Any(), maxLength=None), SetOf(Any(), maxLength=None),
                DictOf(Any(), Any(), maxKeys=None), TupleOf(Any(), Any(), Any()),
                ChoiceOf(ByteStringConstraint(maxLength=None), IntegerConstraint(maxBytes=None), UnicodeConstraint(maxLength=None), None),
                IConstraint(int), IConstraint(bytes), IConstraint(str), IConstraint(float), IConstraint(bool), IConstraint(None),
                IConstraint((int, bytes))]

    disturbances = ("none", "built-before", "built-after-install", "built-mid-message", "loose-twin-receiving", "same-object-on-two-connections")
    control_failed = set()
    for sname, mk, prefix in schemas:
        for dist in disturbances:
            for ty in (STRING, LONGINT, LONGNEG):
                for size in ((200, 10 ** 6, 2 ** 448 - 1) if ctx.tier == "quick" else (66, 200, 1001, 10 ** 6, 2 ** 64, 2 ** 448 - 1)):
                    hw, esc, keep, twin = 0, None, [], None
                    try:
                        if dist == "built-before":
                            keep = siblings()
                        c = IConstraint(mk(False))
                        p = I.RealBanana()
                        p.receiveStack[-1].constraint = c
                        if dist == "built-after-install":
                            keep = siblings()
                        elif dist == "same-object-on-two-connections":
                            twin = I.RealBanana()
                            twin.receiveStack[-1].constraint = c
                        elif dist == "loose-twin-receiving":
                            twin = I.RealBanana()
                            twin.receiveStack[-1].constraint = IConstraint(mk(True))
                        p.dataReceived(prefix)
                        if dist == "built-mid-message":
                            keep = siblings()
                        if twin is not None:
                            # the other connection is in the middle of the same message; under the loose twin schema it goes on to
                            # receive the same sized token (accepted there) while this one is being judged
                            twin.dataReceived(prefix)
                            if dist == "loose-twin-receiving":
                                twin.dataReceived(tok(ty, 2000) + b"t" * 700)
                        p.dataReceived(tok(ty, size))
                        hw = len(p.buffer)
                        left = min(size - 1, 3000)
                        while left > 0 and not p.connectionAbandoned:
                            n_ = min(1000, left)
                            if twin is not None and dist == "loose-twin-receiving" and not twin.connectionAbandoned:
                                twin.dataReceived(b"t" * 100)
                            p.dataReceived(b"y" * n_)
                            left -= n_
                            hw = max(hw, len(p.buffer))
                    except Exception as e:
                        esc = "%s: %s" % (type(e).__name__, e)
                    ctx.case(["schema-isolation", sname, dist, ty, size], nontrivial=True)
                    ctx.hist("schema_isolation", dist)
                    cls = sname.split("(")[-1].split("<")[0].split(",")[0].rstrip(") ") if "full" not in sname else sname.split("(")[0] + "-full"
                    if esc:
                        ctx.fail("oracle/exception-escaped", "exception escaped dataReceived under %s (%s): %s" % (sname, dist, esc),
                                 replay=dict(constraint=sname, disturbance=dist, ty=ty, size=size))
                    elif hw > 65 and dist == "none":
                        # control run: nothing else happens between building the schema and receiving
                        control_failed.add((sname, ty, size))
                        ctx.fail("oracle/rejected-body-buffered/tight-schema",
                                 "schema in force: %s (every limit <= 40 bytes, or the container already full), built immediately before use. A %s "
                                 "token announcing %d bytes, which that schema refuses, was buffered (%d bytes held, 1000-byte packets)"
                                 % (sname, hex(ty), size, hw),
                                 replay=dict(constraint=sname, leaf=cls, disturbance=dist, ty=ty, size=size, packets=1000, highwater=hw))
                    elif hw > 65 and (sname, ty, size) not in control_failed:
                        ctx.fail("oracle/limit-depends-on-other-constraints/%s" % dist,
                                 "schema in force on this connection: %s (every limit <= 40 bytes, or the container already full). A %s token "
                                 "announcing %d bytes, which that schema refuses, is refused unbuffered when nothing else happens (control run), "
                                 "but was buffered (%d bytes held, 1000-byte packets) when other constraint objects were in play (%s): the limit "
                                 "applied was not the one of the constraint in force"
                                 % (sname, hex(ty), size, hw, dist),
                                 replay=dict(constraint=sname, leaf=cls, disturbance=dist, ty=ty, size=size, packets=1000, highwater=hw,
                                             siblings="see harness/c11.py schema_isolation.siblings"))
                    del keep


def negotiation_coalesced(ctx):
    """the 4096-byte cap on one negotiation block holds for every packet boundary: k complete small blocks followed, IN THE SAME
    PACKET, by an unterminated remainder or by a complete oversize block.  Phase handlers are probes that record the block sizes."""
    import foolscap.negotiate as neg
    r = ctx.rng
    small = b"x-small: 1"
    for k in (1, 2, 3):
        for rest_kind in ("unterminated", "complete-oversize"):
            for total in (4100, 4200, 10000, 20000):
                for split in ("one-packet", "split-inside-rest", "blocks-then-rest"):
                    nobj = neg.Negotiation()
                    nobj.isClient = False
                    log_ = []
                    blocks = []

                    class T:
                        def write(self, d):
                            log_.append(("w", d))

                        def loseConnection(self):
                            log_.append(("lose",))
                    nobj.transport = T()
                    nobj.negotiationFailed = lambda: None
                    probe = lambda header: blocks.append(len(header))
                    nobj.handlePLAINTEXTServer = probe
                    nobj.handlePLAINTEXTClient = probe
                    nobj.handleENCRYPTED = probe
                    nobj.handleDECIDING = probe
                    head = (small + b"\r\n\r\n") * k
                    rest = b"y" * total + (b"\r\n\r\n" if rest_kind == "complete-oversize" else b"")
                    if split == "one-packet":
                        packets = [head + rest]
                    elif split == "split-inside-rest":
                        packets = [head + rest[:50], rest[50:]]
                    else:
                        packets = [head, rest]
                    hw, esc = 0, None
                    try:
                        for pk in packets:
                            if ("lose",) in log_ or nobj.receive_phase == neg.ABANDONED:
                                break
                            nobj.dataReceived(pk)
                            if ("lose",) not in log_:
                                hw = max(hw, len(nobj.buffer))
                    except Exception as e:
                        esc = "%s: %s" % (type(e).__name__, e)
                    lost = ("lose",) in log_
                    ctx.case(["negotiation-coalesced", k, rest_kind, total, split], nontrivial=True)
                    ctx.hist("negotiation_coalesced", split)
                    if esc:
                        ctx.fail("oracle/exception-escaped", "exception escaped Negotiation.dataReceived: %s" % esc, replay=dict(k=k, rest=rest_kind, total=total, split=split))
                    elif (not lost and hw > 4096 + 3) or any(b > 4096 for b in blocks):
                        ctx.fail("oracle/negotiation-cap/coalesced", "negotiation: %d complete small block(s) followed by %s of %d bytes (%s): connection dropped=%s, %d bytes of "
                                 "one unfinished block held while alive, block sizes handed to the phase handlers %r (cap 4096)"
                                 % (k, "an unterminated block" if rest_kind == "unterminated" else "a complete block", total, split, lost, hw, blocks[:6]),
                                 replay=dict(k=k, rest=rest_kind, total=total, split=split, highwater=hw, blocks=blocks[:6]))


def choice_open_sweep(ctx, I):
    """ChoiceOf slots: an OPEN of EVERY opentype at the slot (bare and as a list item), followed by a sized token announcing far more
    than any alternative admits: whichever alternative the OPEN selects -- or none -- the body must not be buffered"""
    from foolscap.constraint import IConstraint, ByteStringConstraint, IntegerConstraint
    from foolscap.schema import ListOf, DictOf, UnicodeConstraint, ChoiceOf
    opentypes = [b"unicode", b"none", b"boolean", b"decimal", b"list", b"tuple", b"dict", b"set", b"immutable-set", b"copyable", b"reference"]
    slots = [("ChoiceOf(bytes<=10, None)", lambda: ChoiceOf(ByteStringConstraint(maxLength=10), None), 10),
             ("ChoiceOf(bytes<=10, bool)", lambda: ChoiceOf(ByteStringConstraint(maxLength=10), bool), 10),
             ("ChoiceOf(unicode<=5, int)", lambda: ChoiceOf(UnicodeConstraint(maxLength=5), int), 1024),
             ("ChoiceOf(int, None)", lambda: ChoiceOf(IntegerConstraint(maxBytes=8), None), 8),
             ("ChoiceOf(ChoiceOf(bytes<=10, None), bool)", lambda: ChoiceOf(ChoiceOf(ByteStringConstraint(maxLength=10), None), bool), 10)]
    for sname, mk, B in slots:
        for where in ("bare", "list-item", "dict-value"):
            for ot in opentypes:
                for ty in (STRING, LONGINT):
                    c = mk() if where == "bare" else ListOf(mk(), maxLength=3) if where == "list-item" else DictOf(ByteStringConstraint(5), mk(), maxKeys=2)
                    p = I.RealBanana()
                    p.receiveStack[-1].constraint = IConstraint(c)
                    pre = b"" if where == "bare" else tok(OPEN, 0) + S(b"list") if where == "list-item" else tok(OPEN, 0) + S(b"dict") + S(b"k")
                    hw, esc = 0, None
                    try:
                        p.dataReceived(pre + tok(OPEN, 1) + S(ot))
                        p.dataReceived(tok(ty, 2 ** 60))
                        for i in range(12):
                            if p.connectionAbandoned:
                                break
                            p.dataReceived(b"z" * 1000)
                            hw = max(hw, len(p.buffer))
                    except Exception as e:
                        esc = "%s: %s" % (type(e).__name__, e)
                    ctx.case(["choice-open", sname, where, ot.decode(), ty], nontrivial=True)
                    ctx.hist("choice_open", where)
                    bound = 65 + max(B, 1000)
                    if esc:
                        ctx.fail("oracle/exception-escaped", "exception escaped dataReceived under %s (%s, OPEN %s): %s" % (sname, where, ot.decode(), esc),
                                 replay=dict(slot=sname, where=where, opentype=ot.decode()))
                    elif hw >= bound:
                        ctx.fail("oracle/unbounded-buffering/choice-slot", "under %s (%s) the receiver held %d bytes of a %s token announcing 2**60 bytes "
                                 "inside OPEN %s (no alternative admits more than %d bytes)" % (sname, where, hw, hex(ty), ot.decode(), B),
                                 replay=dict(slot=sname, where=where, opentype=ot.decode(), ty=ty, highwater=hw, bound=bound))


def build_constraint(spec):
    """corpus/C11 constraint spec -> live constraint object"""
    from foolscap.constraint import ByteStringConstraint, IntegerConstraint
    from foolscap.schema import ListOf, TupleOf, DictOf, SetOf, UnicodeConstraint, ChoiceOf
    k = spec[0]
    if k == "bytes":
        return ByteStringConstraint(maxLength=spec[1])
    if k == "unicode":
        return UnicodeConstraint(maxLength=spec[1])
    if k == "int":
        return IntegerConstraint(maxBytes=spec[1])
    if k == "choice":
        return ChoiceOf(*[build_constraint(x) for x in spec[1:]])
    if k == "list":
        return ListOf(build_constraint(spec[1]), maxLength=3)
    if k == "set":
        return SetOf(build_constraint(spec[1]), maxLength=3)
    if k == "tuple":
        return TupleOf(*[build_constraint(x) for x in spec[1:]])
    if k == "dict":
        return DictOf(build_constraint(spec[1]), build_constraint(spec[2]), maxKeys=2)
    raise ValueError(spec)


def choice_admits_copyable(ctx, I):
    """A slot governed by a ChoiceOf admits OPEN copyable (PolyConstraint inherits opentypes = None), and a RemoteCopyUnslicer applies
    no constraint to its attribute-name tokens: after OPEN copyable + a REGISTERED class name, a STRING announcing far more than any
    alternative admits must still not be buffered.  The class-name token itself is bounded by openerCheckToken (choice_open_sweep
    stops there); this oracle goes one token further.  corpus/C11/choice_admits_copyable.json (the reviewer's input) first, then every
    container slot kind x every registered Copyable name x STRING / attribute value positions.
    lib/StdUnsl.sbound answers None for these schemas (props/C11.v C11_taster_only_bound_refuted)."""
    import json, os
    from foolscap.constraint import IConstraint
    import foolscap.call          # registers twisted.python.failure.Failure, as in every process that creates a Tub
    from foolscap import copyable
    sig = "oracle/unbounded-buffering/choice-admits-copyable"

    def drive(name, cobj, prefix, claim_ty, claim, chunk, nchunks, B):
        p = I.RealBanana()
        p.receiveStack[-1].constraint = IConstraint(cobj)
        hw, esc = 0, None
        try:
            p.dataReceived(bytes(prefix))
            p.dataReceived(tok(claim_ty, claim))
            hw = len(p.buffer)
            blob = b"x" * chunk
            for _ in range(nchunks):
                if p.connectionAbandoned:
                    break
                p.dataReceived(blob)
                hw = max(hw, len(p.buffer))
        except Exception as e:
            esc = "%s: %s" % (type(e).__name__, e)
        ctx.case(["choice-admits-copyable", name, list(prefix), claim_ty, claim, chunk, nchunks], nontrivial=True)
        ctx.hist("choice_copyable", name.split(":")[0])
        bound = 65 + max(B, p.rootUnslicer.maxIndexLength, 1000)
        if esc:
            ctx.fail("oracle/exception-escaped", "exception escaped dataReceived under %s: %s" % (name, esc), replay=dict(constraint=name, prefix=list(prefix)))
        elif hw >= bound:
            ctx.fail(sig, "under the size-bounded schema %s (no alternative admits a body over %d bytes) the receiver held %d bytes of a %s token "
                     "announcing %d bytes that followed OPEN copyable + a registered class name inside a ChoiceOf slot (connection abandoned: %s; "
                     "violations reported: %d)" % (name, B, hw, hex(claim_ty), claim, bool(p.connectionAbandoned),
                                                   sum(1 for e in p.vlog if e[0] == "violation")),
                     replay=dict(constraint=name, prefix=list(prefix), claim_type=claim_ty, claim=claim, chunk=chunk, chunks=nchunks, highwater=hw, bound=bound))
        return hw

    cdir = os.path.join(common.VERIF, "corpus", "C11")
    if os.path.isdir(cdir):
        for fn in sorted(os.listdir(cdir)):
            if fn.endswith(".json"):
                c = json.load(open(os.path.join(cdir, fn)))
                if "prefix" in c:
                    nch = c["chunks"] if ctx.tier != "quick" else min(c["chunks"], 30)
                    drive("corpus:" + c["name"], build_constraint(c["constraint"]), c["prefix"], c["claim_type"], c["claim"], c["chunk"], nch, c["schema_bound"])
    names = sorted(copyable.CopyableRegistry.keys())
    ctx.extra["registered_copyables"] = len(names)
    mkchoice = lambda: ["choice", ["bytes", 3], ["unicode", 3]]
    slots = [("list-item", ["list", mkchoice()], tok(OPEN, 0) + S(b"list")),
             ("set-member", ["set", mkchoice()], tok(OPEN, 0) + S(b"set")),
             ("dict-value", ["dict", ["bytes", 5], mkchoice()], tok(OPEN, 0) + S(b"dict") + S(b"k")),
             ("dict-key", ["dict", mkchoice(), ["bytes", 5]], tok(OPEN, 0) + S(b"dict")),
             ("tuple-second", ["tuple", ["int", 4], mkchoice()], tok(OPEN, 0) + S(b"tuple") + enc_int(1)),
             ("nested-choice", ["list", ["choice", mkchoice(), ["int", 4]]], tok(OPEN, 0) + S(b"list"))]
    for sname, spec, pre in slots:
        for cname in names[:3]:
            cn = cname.encode() if isinstance(cname, str) else cname
            for pos in ("attr-name", "attr-value"):
                prefix = pre + tok(OPEN, 1) + S(b"copyable") + S(cn) + (S(b"a") if pos == "attr-value" else b"")
                for ty in (STRING, LONGINT):
                    if pos == "attr-name" and ty != STRING:
                        continue
                    drive("%s:%s:%s" % (sname, pos, cname), build_constraint(spec), prefix, ty, 2 ** 40, 4000, 3, 18)


def copyable_attribute_slots(ctx, I):
    """The schema in force for an attribute VALUE of a RemoteCopy is the constraint its stateSchema (AttributeDictConstraint) names for
    that attribute, whether written plainly, as Optional(..), as ChoiceOf(..) or as Optional(ChoiceOf(..)): a sized token announcing
    more than that constraint admits is refused on its header and nothing of its body is buffered.  Fixed sweep (no random choice):
    every constraint class as the attribute's constraint x every wrapper x the Copyable as a list item / a dict value x the
    attribute first / after a loosely constrained attribute x the sized token directly at the slot / inside the OPEN the constraint
    admits x token kind x announced size.  The classes are registered for the duration of one trial only."""
    from foolscap.constraint import IConstraint, ByteStringConstraint, IntegerConstraint, NumberConstraint, Optional, Any
    from foolscap.schema import ListOf, TupleOf, DictOf, SetOf, UnicodeConstraint, BooleanConstraint, ChoiceOf
    from foolscap.slicers.none import Nothing
    from foolscap import copyable
    NAME = "c11.N"
    tight = lambda: ByteStringConstraint(maxLength=10)
    # (name, maker, OPEN the constraint admits at the slot (bytes after the OPEN's index token) or None)
    leaves = [("bytes<=10", tight, None),
              ("int<=8B", lambda: IntegerConstraint(maxBytes=8), None),
              ("int32", lambda: IntegerConstraint(maxBytes=-1), None),
              ("number<=8B", lambda: NumberConstraint(maxBytes=8), None),
              ("none", lambda: Nothing(), None),
              ("unicode<=5", lambda: UnicodeConstraint(maxLength=5), S(b"unicode")),
              ("bool", lambda: BooleanConstraint(), S(b"boolean")),
              ("ListOf(bytes<=10)", lambda: ListOf(tight(), maxLength=3), S(b"list")),
              ("SetOf(bytes<=10)", lambda: SetOf(tight(), maxLength=3), S(b"set")),
              ("TupleOf(bytes<=10)", lambda: TupleOf(tight()), S(b"tuple")),
              ("DictOf(bytes<=10,bytes<=10) value", lambda: DictOf(tight(), tight(), maxKeys=2), S(b"dict") + S(b"k"))]
    wrappers = [("%s", lambda c: c),
                ("Optional(%s)", lambda c: Optional(c, None)),
                ("ChoiceOf(%s, None)", lambda c: ChoiceOf(c, None)),
                ("ChoiceOf(%s, bool)", lambda c: ChoiceOf(c, bool)),
                ("Optional(ChoiceOf(%s, None))", lambda c: Optional(ChoiceOf(c, None), None)),
                ("Optional(ChoiceOf(%s, bool))", lambda c: Optional(ChoiceOf(c, bool), None))]
    quick = ctx.tier == "quick"
    sizes = (200, 2 ** 448 - 1) if quick else (11, 66, 200, 1001, 10 ** 6, 2 ** 64, 2 ** 448 - 1)
    for lname, mk, inner in leaves:
        for wfmt, wrap in wrappers:
            cname = wfmt % lname
            for site in ("list-item", "dict-value"):
                for attrpos in ("first", "after-loose-attribute"):
                    if quick and site == "dict-value" and attrpos != "first":
                        continue
                    for with_open in ((False, True) if inner else (False,)):
                        for ty in (STRING, LONGINT, LONGNEG):
                            for size in sizes:
                                hw, esc, depth_ok = 0, None, True
                                schema = copyable.AttributeDictConstraint(("pre", ByteStringConstraint(maxLength=300)), ("a", wrap(mk())),
                                                                          ("post", Optional(ByteStringConstraint(maxLength=300), None)))
                                depth = 0
                                pre = b""
                                # (a plain Banana root admits no Copyable at top level)
                                pre += tok(OPEN, depth) + (S(b"list") if site == "list-item" else S(b"dict") + S(b"k"))
                                depth += 1
                                pre += tok(OPEN, depth) + S(b"copyable") + S(NAME.encode())
                                depth += 1
                                if attrpos != "first":
                                    pre += S(b"pre") + S(b"p" * 250)
                                pre += S(b"a")
                                if with_open:
                                    pre += tok(OPEN, depth) + inner
                                try:
                                    type("C11Note", (copyable.RemoteCopy,), dict(copytype=NAME, stateSchema=schema))
                                    p = I.RealBanana()
                                    p.dataReceived(pre)
                                    depth_ok = len(p.receiveStack) >= depth + 1 + (1 if with_open else 0) and not p.discardCount and not p.connectionAbandoned
                                    p.dataReceived(tok(ty, size))
                                    hw = len(p.buffer)
                                    left = min(size - 1, 3000)
                                    while left > 0 and not p.connectionAbandoned:
                                        n_ = min(1000, left)
                                        p.dataReceived(b"y" * n_)
                                        left -= n_
                                        hw = max(hw, len(p.buffer))
                                except Exception as e:
                                    esc = "%s: %s" % (type(e).__name__, e)
                                finally:
                                    copyable.CopyableRegistry.pop(NAME, None)
                                    copyable.debug_CopyableFactories.pop(NAME, None)
                                    copyable.debug_RemoteCopyClasses.pop(NAME, None)
                                ctx.case(["copyable-attribute", cname, site, attrpos, with_open, ty, size], nontrivial=depth_ok)
                                ctx.hist("copyable_attribute", wfmt % "c")
                                ctx.hist("copyable_attribute_reached_slot", depth_ok)
                                rp = dict(attribute_constraint=cname, copyable=site, attribute=attrpos, inside_admitted_open=with_open, ty=ty, size=size,
                                          packets=1000, highwater=hw, prefix=list(pre))
                                if esc:
                                    ctx.fail("oracle/exception-escaped", "exception escaped dataReceived (RemoteCopy attribute %s): %s" % (cname, esc), replay=rp)
                                elif hw > 65:
                                    ctx.fail("oracle/rejected-body-buffered/copyable-attribute",
                                             "RemoteCopy with stateSchema AttributeDictConstraint(('pre', bytes<=300), ('a', %s), ('post', Optional(bytes<=300))), "
                                             "%s, attribute 'a' %s%s: a %s token announcing %d bytes, which the constraint of attribute 'a' refuses (every limit "
                                             "<= 40 bytes), was buffered (%d bytes held, 1000-byte packets)"
                                             % (cname, site, attrpos, ", inside the OPEN that constraint admits" if with_open else "", hex(ty), size, hw), replay=rp)


def copyable_unknown_attribute_options(ctx, I):
    """RemoteCopy state schemas built with the NON-DEFAULT options of AttributeDictConstraint (ignoreUnknown / acceptUnknown, every
    combination), the Copyable nested in a list / a dict value / a tuple, attribute names inside and outside the schema, the value a
    sized token (or the OPEN of a container / unicode followed by one) announcing far more than the schema admits, prefix and body
    delivered whole and in small chunks.  The rule is the property's: for an attribute the schema lists, its constraint is in force
    under every option; for an attribute the schema does NOT list, the schema admits the value only with acceptUnknown=True and
    ignoreUnknown=False (getAttrConstraint answers (True, None): no limit is declared, nothing is asserted there); with
    ignoreUnknown=True (value to be dropped) or with neither option (Violation) the value is not admitted, so nothing of its body may be
    held -- whether the receiver refuses it, skips it or abandons the connection (abandoning on the unchanged tree is the C02 finding
    attrdict-ignore-unknown-drops-connection, not a C11 matter: bytes held stay small).  Fixed sweep, the fixed witness first."""
    from foolscap.constraint import ByteStringConstraint, Optional
    from foolscap import copyable
    NAME = "c11.U"
    quick = ctx.tier == "quick"
    sig = "oracle/rejected-body-buffered/copyable-unknown-attribute"
    values = [("STRING", lambda d: b"", STRING), ("LONGINT", lambda d: b"", LONGINT), ("LONGNEG", lambda d: b"", LONGNEG),
              ("list[STRING]", lambda d: tok(OPEN, d) + S(b"list"), STRING), ("unicode", lambda d: tok(OPEN, d) + S(b"unicode"), STRING),
              ("dict{k:STRING}", lambda d: tok(OPEN, d) + S(b"dict") + S(b"k"), STRING),
              ("tuple(list[LONGINT])", lambda d: tok(OPEN, d) + S(b"tuple") + tok(OPEN, d + 1) + S(b"list"), LONGINT)]
    sites = [("list-item", lambda: S(b"list")), ("dict-value", lambda: S(b"dict") + S(b"k")), ("tuple-item", lambda: S(b"tuple")),
             ("list-in-list-item", None)]

    def trial(ignore, accept, site, attr, vname, size, pchunk, bchunk, sent):
        kw = {}
        if ignore is not None:
            kw["ignoreUnknown"] = ignore
        if accept is not None:
            kw["acceptUnknown"] = accept
        schema = copyable.AttributeDictConstraint(("label", ByteStringConstraint(maxLength=10)),
                                                  ("opt", Optional(ByteStringConstraint(maxLength=10), None)), **kw)
        vopen, ty = [(f, t) for (n_, f, t) in values if n_ == vname][0]
        depth = 0
        if site == "list-in-list-item":
            pre = tok(OPEN, 0) + S(b"list") + tok(OPEN, 1) + S(b"list")
            depth = 2
        else:
            pre = tok(OPEN, 0) + dict((n_, f) for n_, f in sites)[site]()
            depth = 1
        pre += tok(OPEN, depth) + S(b"copyable") + S(NAME.encode())
        depth += 1
        known = attr.startswith("known")
        if attr in ("unknown-after-known", "known-after-known"):
            pre += S(b"label") + S(b"ok")
        if attr == "unknown-after-unknown":
            pre += S(b"zzz") + S(b"ok")     # a first unlisted attribute with a small value, then another one
        pre += S(b"opt") if known else S(b"comment")
        pre += vopen(depth)
        admitted_unbounded = (not known) and bool(accept) and not ignore and attr != "unknown-after-unknown"
        if attr == "unknown-after-unknown":
            admitted_unbounded = bool(accept) and not ignore
        hw, esc, abandoned, skip = 0, None, False, 0
        try:
            type("C11Unk", (copyable.RemoteCopy,), dict(copytype=NAME, stateSchema=schema))
            p = I.RealBanana()
            for i in range(0, len(pre), pchunk):
                p.dataReceived(pre[i:i + pchunk])
                hw = max(hw, len(p.buffer))
            hw = 0          # (the prefix's tokens are all small; what is measured is the value that follows)
            p.dataReceived(tok(ty, size))
            hw = len(p.buffer)
            left = min(size - 1, sent)
            while left > 0:
                n_ = min(bchunk, left)
                p.dataReceived(b"y" * n_)
                left -= n_
                hw = max(hw, len(p.buffer))
            abandoned, skip = bool(p.connectionAbandoned), p.skipBytes
        except Exception as e:
            esc = "%s: %s" % (type(e).__name__, e)
        finally:
            copyable.CopyableRegistry.pop(NAME, None)
            copyable.debug_CopyableFactories.pop(NAME, None)
            copyable.debug_RemoteCopyClasses.pop(NAME, None)
        opts = "ignoreUnknown=%r, acceptUnknown=%r" % (ignore, accept)
        ctx.case(["copyable-unknown-attribute", opts, site, attr, vname, size, pchunk, bchunk], nontrivial=not admitted_unbounded)
        ctx.hist("copyable_unknown_attribute_options", opts)
        ctx.hist("copyable_unknown_attribute_outcome", "admitted-without-limit" if admitted_unbounded else
                 "abandoned" if abandoned else "refused-or-skipped")
        rp = dict(options=opts, copyable=site, attribute=attr, value=vname, ty=ty, size=size, prefix_chunk=pchunk, body_chunk=bchunk,
                  highwater=hw, prefix=list(pre))
        if esc:
            ctx.fail("oracle/exception-escaped", "exception escaped dataReceived (RemoteCopy, AttributeDictConstraint(%s)): %s" % (opts, esc), replay=rp)
        elif hw > 65 and not admitted_unbounded:
            ctx.fail(sig, "RemoteCopy with stateSchema AttributeDictConstraint(('label', bytes<=10), ('opt', Optional(bytes<=10)), %s) as a %s: "
                     "attribute %r (%s), value %s: a %s token announcing %d bytes, which this schema does not admit (%s), was buffered: %d bytes "
                     "held after %d body bytes in %d-byte packets (prefix in %d-byte packets; connection abandoned: %s, skipBytes %d)"
                     % (opts, site, "opt" if known else "comment", attr, vname, hex(ty), size,
                        "the attribute's constraint admits 10 bytes" if known else "the attribute is not listed and is to be %s" % ("ignored" if ignore else "refused"),
                        hw, min(size - 1, sent), bchunk, pchunk, abandoned, skip), replay=rp)

    # the fixed witness of the family: a size-bounded schema with ignoreUnknown=True, a listed attribute, then an unlisted one whose STRING
    # value announces 50 MB and arrives in 100-byte packets after a byte-by-byte prefix
    trial(True, None, "list-item", "unknown-after-known", "STRING", 50 * 1000 * 1000, 1, 100, 20000)
    trial(True, None, "dict-value", "unknown-first", "list[STRING]", 2 ** 448 - 1, 1, 1000, 5000)
    combos = [(True, None), (True, True), (True, False), (None, None), (False, False), (None, True), (False, True)]
    attrs = ("unknown-first", "unknown-after-known", "unknown-after-unknown", "known-first", "known-after-known")
    sizes = (200, 2 ** 448 - 1) if quick else (11, 66, 200, 1001, 10 ** 6, 2 ** 64, 2 ** 448 - 1)
    k = 0
    for ignore, accept in combos:
        for site, _f in sites:
            for attr in attrs:
                for vname, _o, _t in values:
                    for size in sizes:
                        k += 1
                        if quick:
                            # one pacing per case, rotating through the pacings
                            pacings = [[(10 ** 6, 1000), (1, 100), (3, 1), (7, 37)][k % 4]]
                            if pacings[0][1] == 1 and size > 400:
                                pacings = [(3, 13)]
                        else:
                            pacings = [(10 ** 6, 1000), (1, 100), (3, 13), (7, 37)]
                        for pchunk, bchunk in pacings:
                            trial(ignore, accept, site, attr, vname, size, pchunk, bchunk, 3000 if bchunk >= 13 else 400)


def member_counts(ctx, I):
    """what is HELD for a partly received container is bounded by the schema too: a container with maxLength / maxKeys k never holds
    more than k members while it is being received, however many the peer sends and whether or not they repeat"""
    from foolscap.constraint import IConstraint, ByteStringConstraint
    from foolscap.schema import ListOf, TupleOf, DictOf, SetOf
    leaf = lambda: ByteStringConstraint(maxLength=10)
    for kind, ot in (("list", b"list"), ("set", b"set"), ("frozenset", b"immutable-set"), ("dict", b"dict"), ("tuple", b"tuple")):
        for k in (1, 3):
            for pattern in ("one-repeated", "two-alternating", "distinct"):
                if kind in ("list", "tuple"):
                    c = ListOf(leaf(), maxLength=k) if kind == "list" else TupleOf(*[leaf() for _ in range(k)])
                elif kind in ("set", "frozenset"):
                    c = SetOf(leaf(), maxLength=k)
                else:
                    c = DictOf(leaf(), leaf(), maxKeys=k)
                p = I.RealBanana()
                p.receiveStack[-1].constraint = IConstraint(c)
                worst, esc, held_bytes = 0, None, 0
                try:
                    p.dataReceived(tok(OPEN, 0) + S(ot))
                    for i in range(k + 60):
                        item = b"same" if pattern == "one-repeated" else (b"a" if i % 2 else b"b") if pattern == "two-alternating" else b"m%d" % i
                        p.dataReceived(S(item) + (S(b"v") if kind == "dict" else b""))
                        if p.connectionAbandoned or p.discardCount or len(p.receiveStack) < 2:
                            break
                        top = p.receiveStack[-1]
                        coll = None
                        for attr in ("list", "set", "d"):
                            if isinstance(getattr(top, attr, None), (list, set, dict)):
                                coll = getattr(top, attr)
                        if coll is not None:
                            worst = max(worst, len(coll))
                except Exception as e:
                    esc = "%s: %s" % (type(e).__name__, e)
                ctx.case(["member-count", kind, k, pattern], nontrivial=True)
                ctx.hist("member_count", kind)
                if esc:
                    ctx.fail("oracle/exception-escaped", "exception escaped dataReceived (%s, maxLength %d): %s" % (kind, k, esc), replay=dict(kind=kind, k=k))
                elif worst > k:
                    ctx.fail("oracle/partly-received-container-over-limit", "a %s limited to %d member(s) held %d members while it was being received "
                             "(items sent: %s)" % (kind, k, worst, pattern), replay=dict(kind=kind, k=k, pattern=pattern, held=worst))


def pb_index_tokens(ctx):
    """index tokens on a real Broker (PBRootUnslicer): the opentype strings of an OPEN are judged by the root, not by the schema.
    The first is bounded by the longest known opentype, the class name of an OPEN copyable by the longest registered Copyable;
    exercised where a schema IS in force around it: the error response of a pending call (FailureConstraint)."""
    from harness import implenv as E
    from foolscap import call, copyable
    r = ctx.rng
    longest = max(len(k) for k in copyable.CopyableRegistry.keys())
    for where in ("error-copyable-classname", "error-first-index", "top-first-index", "answer-copyable-classname"):
        for size in (longest + 1, 5000, 10 ** 6, 2 ** 448 - 1):
            tb, cb = E.broker_pair()
            cb.addRequest(call.PendingRequest(7, None, None, None))
            if where == "error-copyable-classname":
                pre = tok(OPEN, 0) + S(b"error") + enc_int(7) + tok(OPEN, 1) + S(b"copyable")
            elif where == "answer-copyable-classname":
                pre = tok(OPEN, 0) + S(b"answer") + enc_int(7) + tok(OPEN, 1) + S(b"copyable")
            elif where == "error-first-index":
                pre = tok(OPEN, 0) + S(b"error") + enc_int(7) + tok(OPEN, 1)
            else:
                pre = tok(OPEN, 0)
            hw, esc = 0, None
            sent = min(size, r.choice([30000, 200000]))
            step = r.choice([1000, 4096])
            try:
                cb.dataReceived(pre)
                cb.dataReceived(tok(STRING, size))
                left = sent
                while left > 0 and not cb.connectionAbandoned:
                    k = min(step, left)
                    cb.dataReceived(b"x" * k)
                    left -= k
                    hw = max(hw, len(cb.buffer))
            except Exception as e:
                esc = "%s: %s" % (type(e).__name__, e)
            ctx.case(["pb-index", where, size, sent, step], nontrivial=True)
            ctx.hist("pb_index", where)
            bound = 65 + max(longest, cb.rootUnslicer.maxIndexLength, 1000)
            if esc:
                ctx.fail("oracle/exception-escaped", "exception escaped Broker.dataReceived (%s): %s" % (where, esc), replay=dict(where=where, size=size))
            elif where != "answer-copyable-classname" and hw >= bound:
                ctx.fail("oracle/unbounded-buffering/copyable-classname" if "classname" in where else "oracle/unbounded-buffering/index-token",
                         "a real Broker held %d bytes of an index token announcing %d bytes (%s); index tokens are bounded by the longest opentype "
                         "(%d) / the longest registered Copyable name (%d)" % (hw, size, where, cb.rootUnslicer.maxIndexLength, longest),
                         replay=dict(where=where, size=size, sent=sent, step=step, highwater=hw, bound=bound))
            elif where == "answer-copyable-classname" and hw >= bound:
                # no result constraint is in force for this request (Any): the class-name bound of the root is the only one
                ctx.fail("oracle/unbounded-buffering/copyable-classname", "a real Broker held %d bytes of a copyable class-name token announcing %d "
                         "bytes inside an answer" % (hw, size), replay=dict(where=where, size=size, sent=sent, step=step, highwater=hw, bound=bound))


def opener_correspondence(ctx):
    """gen/OpenerGen.v (translated openerCheckToken of both roots) against the real methods on a grid"""
    from harness import implenv as E
    from harness.common import coq_list, coq_Z
    from foolscap import copyable, tokens
    from foolscap.tokens import Violation
    from harness import c07_impl as I
    longest = max(len(k) for k in copyable.CopyableRegistry.keys())
    tb, cb = E.broker_pair()
    roots = {"pb": cb.rootUnslicer, "root": I.RealBanana().rootUnslicer}
    ots = [[], ["copyable"], ["list"], ["copyabl"], ["copyable2"], ["copyable", "x"], ["call"], [""]]
    tys = [0x80, 0x81, 0x82, 0x83, 0x84, 0x85, 0x86, 0x87, 0x88, 0x89, 0x8A, 0x8D, 0x8E, 0x8F]
    cases, lines = [], []
    for kind, root in roots.items():
        mi = root.maxIndexLength
        for ot in ots:
            for ty in tys:
                for size in sorted({0, 1, mi - 1, mi, mi + 1, longest - 1, longest, longest + 1, 1000, 2 ** 64}):
                    try:
                        root.openerCheckToken(bytes([ty]), size, list(ot))
                        acc = 1
                    except Violation:
                        acc = 0
                    cases.append((kind, ot, ty, size, acc))
                    lines.append("(%s %s %s %s %s %s)" % ("pb_opener_accepts" if kind == "pb" else "root_opener_accepts", coq_Z(mi), coq_Z(longest),
                                                         coq_list([coq_list([coq_Z(b) for b in o.encode()]) for o in ot]), coq_Z(ty), coq_Z(size)))
    body = "Eval vm_compute in map (fun b : bool => if b then 1%Z else 0%Z) " + coq_list(lines) + ".\n"
    try:
        (vals,) = ctx.coq_eval("C11_opener", body, requires=["Verif.lib.PyLite", "Verif.gen.BananaGen", "Verif.lib.OpenerBase", "Verif.gen.OpenerGen"])
    except common.CoqEvalError as e:
        ctx.fail("correspondence-broken", "the opener model could not be evaluated: " + str(e)[-1200:], has_input=False)
        return
    bad = 0
    for (kind, ot, ty, size, acc), m in zip(cases, vals):
        ctx.traces += 1
        if acc != m:
            bad += 1
            if bad <= 2:
                ctx.fail("correspondence/opener", "translated openerCheckToken and the real one disagree: %s root, opentype %r, type byte 0x%02x, size %d: "
                         "real accepts=%d, model accepts=%d" % (kind, ot, ty, size, acc, m), replay=dict(kind=kind, opentype=ot, ty=ty, size=size), has_input=False)
    ctx.extra["opener_cases"] = len(cases)
    ctx.extra["opener_disagreements"] = bad


def replay(ctx, data):
    """./check C11 --replay F: policy-stream cases are replayed as in C07; real-constraint cases re-run the full oracle"""
    rp = data.get("replay") or {}
    if "stream" in rp:
        return c07.replay(ctx, data)
    print("note: this replay names a real-constraint case (%r); re-running the real-constraint oracle" % rp.get("constraint"))
    from harness import c07_impl as I
    ctx.rule = "replay: real-constraint oracle"
    ctx.coq_build(["props/C11.vo"])
    with I.E_quiet():
        real_constraints(ctx, I)
