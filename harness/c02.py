"""C02 -- declared schemas are enforced on all data crossing into user code."""
import copy, glob, json, os
from harness import common
from harness.common import coq_list
from harness.c12 import EQB, REQ, NAMES, ms_term, tail, nm, effective_argspec, wrap_in_chain

LEAF_GARBAGE = "leaf-garbage"
LEAF_PROTOCOL_ERRORS = ("BooleanUnslicer only accepts", "NoneUnslicer does not accept", "UnicodeUnslicer only accepts",
                        "already received a string", "duplicate key", "unhashable key",
                        # the framing of the `arguments` sequence itself (not a schema question either)
                        "posarg count must be an INT", "kwarg name must be a STRING", "'arguments' sequence ended too early")


def run(ctx):
    ctx.rule = ("(method schema of 0-3 arguments, optionally with __ignoreUnknown__/__acceptUnknown__ / result constraint, built "
                "through the public vocabulary; hand-encoded banana token stream): the children of the `arguments` sequence are a "
                "conforming list, one single-point mutation of it (subtree of another type, boundary size +-1, forged INT/LONGINT "
                "tokens, short/long tuples, empty boolean/unicode sequences, dangling dict key, missing/extra/duplicate/unknown "
                "argument, positional<->keyword moves, back-reference to an earlier argument of another shape, and -- fixed family -- to an earlier CLOSED object of "
                "the declared container kind but another arity / size / member type, in every kind of slot, as argument and inside an "
                "answer), result constraints whose size parameter is ZERO (bare and inside every container kind), a unicode sequence whose "
                "BODY is not UTF-8 (stray continuation byte, overlong, surrogate, > U+10FFFF, truncated, 0xFF) or non-ASCII text, in "
                "every kind of slot as argument and as answer, a my-reference whose interface name / URL is such a byte string, or a hostile "
                "FRAMING (count token larger / smaller than what follows, not an INT, missing; a value where a name is expected and "
                "vice versa; a name without value; the sequence stopping anywhere), plus every required/Optional x positional-count "
                "x keyword-subset binding of three arguments, plus targets whose RemoteInterface DERIVES from other RemoteInterfaces "
                "(a sub-interface re-declares a method tighter / looser / retyped / with an argument more or less, inherits it, adds "
                "one; 2 and 3 levels; every stream to a target of every level: the declaration of the most derived interface that "
                "declares the method governs, judged by a reference that walks the chain itself); fed to a real Broker; "
                "non-trivial = the stream reached the ArgumentUnslicer/AnswerUnslicer")
    ctx.assumptions = ["the body of a unicode sequence, keyword / attribute / method / interface NAMES and reference URLs are arbitrary byte "
                       "strings (Schema.utf8_valid / utf8_decode compared with Python's strict decoder on every run); a my-reference URL "
                       "that IS text is checked against the peer's Tub identity (C05) and is not modelled (Schema.recv_myref: connection "
                       "lost, which is what every URL but the sender's own FURL gets); set elements / dict keys are distinct and hashable",
                       "regexp constraints, FailureConstraint, Shared and their-reference gifts are outside the model (the gift URL's decoding "
                       "site is driven by the oracle only); RemoteCopy state "
                       "under an AttributeDictConstraint stateSchema and the whole `call` sequence (CallUnslicer stages) are modelled "
                       "(Schema.rc_run, Schema.recv_call_stream); RemoteInterface arguments: the receiver's side only (claimed "
                       "interface name vs declared), judged against `declared or a sub-interface`",
                       "ChoiceOf alternatives are token-level constraints in the generated families; ChoiceOf over containers (C12's "
                       "finding D7a on the current tree) is exercised as RESULT constraint by a fixed family",
                       "TLS/negotiation replaced by a loopback Broker pair"]
    ok, log = ctx.coq_build(["props/C02.vo"])
    known = common.load_known()

    def unknown_failures():
        return [f for f in ctx.failures if not ((ctx.pid, f["sig"]) in known and known[(ctx.pid, f["sig"])]["status"] == "known"
                                                and f["has_input"])]
    from harness import schema_impl as S
    from harness import implenv as E
    with E.quiet():
        rcs = guarded(ctx, lambda ctx_, S_, E_: rc_cases(ctx_, S_, E_), S, E) or []
        cseqs = guarded(ctx, lambda ctx_, S_, E_: callseq_cases(ctx_, S_, E_), S, E) or []
        calls = call_cases(ctx, S, E)
        answers = answer_cases(ctx, S, E)
    model_ok = ok
    if not ok:
        ok2, _ = ctx.coq_build(["lib/Schema.vo"])
        model_ok = ok2
    if model_ok:
        correspond(ctx, S, calls, answers)
        correspond_rc(ctx, S, rcs)
        correspond_callseq(ctx, S, cseqs)
    else:
        ctx.note("model does not build: correspondence skipped")
    if not ok and not unknown_failures():
        ctx.fail("proof-broken", "theorem closure props/C02.vo no longer builds against the regenerated gen/SchemaGen.v: "
                 + tail(log), replay=dict(log=tail(log, 6000)), has_input=False)


# --------------------------------------------------------------------------------------------------------------- mutations
def paths(vs, p=()):
    yield p
    if vs[0] in ("l", "T", "s", "fs"):
        for i, x in enumerate(vs[1]):
            yield from paths(x, p + (i,))
    elif vs[0] == "d":
        for i, (a, b) in enumerate(vs[1]):
            yield from paths(a, p + (i, 0))
            yield from paths(b, p + (i, 1))


def step(node, i):
    return node[1][i] if isinstance(node[0], str) else node[i]       # value node, or a [key, value] pair of a dict


def get(vs, p):
    for i in p:
        vs = step(vs, i)
    return vs


def put(vs, p, new):
    if not p:
        return new
    vs = copy.deepcopy(vs)
    cur = vs
    for i in p[:-1]:
        cur = step(cur, i)
    if isinstance(cur[0], str):
        cur[1][p[-1]] = new
    else:
        cur[p[-1]] = new
    return vs


def mutate_value(S, vs, rng):
    """one single-point change of a value: boundary +-1, one more / one less element, another type"""
    ps = list(paths(vs))
    p = rng.choice(ps)
    x = get(vs, p)
    k = x[0]
    r = rng.random()
    if r < 0.35:
        new = S.gen_any(rng, 1, hashable=True)
    elif k == "i":
        new = ["i", rng.choice([2 ** 31, -2 ** 31 - 1, 2 ** 32, -(2 ** 32), 2 ** 64, 256 ** 8, x[1] + 1, -x[1], 2 ** 31 - 1])]
    elif k in ("b", "t"):
        new = [k, x[1] + [97]] if r < 0.7 or not x[1] else [k, x[1][:-1]]
    elif k in ("l", "T"):
        new = [k, x[1] + [x[1][0] if x[1] else ["i", 0]]] if r < 0.7 or not x[1] else [k, x[1][:-1]]
    elif k in ("s", "fs"):
        if r < 0.55:
            new = [k, S.distinct(x[1] + [["i", 123456]])]
        elif r < 0.8:
            new = ["fs" if k == "s" else "s", x[1]]
        else:
            new = [k, x[1][:-1]]
    elif k == "d":
        new = ["d", x[1] + [[["i", 123456], ["i", 1]]]] if r < 0.7 or not x[1] else ["d", x[1][:-1]]
    elif k == "B":
        new = ["B", not x[1]]
    elif k == "N":
        new = ["B", False]
    else:
        new = ["i", 0]
    return put(vs, p, new)


def wpaths(ws, p=()):
    yield p
    if ws[0] == "wo":
        for i, x in enumerate(ws[2]):
            yield from wpaths(x, p + (i,))


def wget(ws, p):
    for i in p:
        ws = ws[2][i]
    return ws


def wput(ws, p, new):
    if not p:
        return new
    ws = copy.deepcopy(ws)
    cur = ws
    for i in p[:-1]:
        cur = cur[2][i]
    cur[2][p[-1]] = new
    return ws


def mutate_wire(S, ws, rng):
    """wire-only single-point changes (no honest sender emits them) -> (ws, family)"""
    ps = list(wpaths(ws))
    rng.shuffle(ps)
    for p in ps:
        x = wget(ws, p)
        r = rng.random()
        if x[0] == "wi":
            v = x[3]
            if r < 0.5:
                big = rng.choice([2 ** 31, 2 ** 40, 2 ** 32])
                return wput(ws, p, ["wi", "INT" if v >= 0 else "NEG", big, big if v >= 0 else -big]), "forged-int-token"
            if v > 0:
                return wput(ws, p, ["wi", "LONGINT", len(S.long_bytes(v)) + 1, v]), "padded-longint"
        if x[0] == "wo" and x[1] in ("boolean", "unicode") and r < 0.6:
            return wput(ws, p, ["wo", x[1], []]), "empty-leaf-sequence"
        if x[0] == "wo" and x[1] == "dict" and x[2] and r < 0.7:
            return wput(ws, p, ["wo", "dict", x[2] + [x[2][0]]]) if False else wput(ws, p, ["wo", "dict", x[2] + [["wi", "INT", 77777, 77777]]]), "dangling-dict-key"
        if x[0] == "wo" and x[1] == "none" and r < 0.5:
            return wput(ws, p, ["wo", "none", [["wi", "INT", 1, 1]]]), LEAF_GARBAGE
        if x[0] == "wo" and x[1] == "boolean" and x[2]:
            return wput(ws, p, ["wo", "boolean", x[2] + x[2]]), LEAF_GARBAGE
        if x[0] == "wo" and x[1] == "unicode" and x[2]:
            return wput(ws, p, ["wo", "unicode", [["wi", "INT", 1, 1]]]), LEAF_GARBAGE
        if p == () and x[0] == "wo" and x[1] in ("list", "tuple", "set", "immutable-set") and r < 0.5:
            return wput(ws, p, ["wo", {"list": "tuple", "tuple": "list", "set": "immutable-set", "immutable-set": "set"}[x[1]], x[2]]), "opentype-swapped"
    return ws, "none"


# ------------------------------------------------------------------------------- back-references to a still-open tuple
PEND_ELEMS = [["py", "str"], ["text", 3, 0], ["py", "bool"], ["bool", True], ["none"], ["list", ["py", "int"], None, 0],
              ["list", ["py", "str"], 2, 0], ["tuple", [["py", "int"], ["py", "int"]]], ["tuple", []],
              ["dict", ["py", "bytes"], ["py", "int"], None], ["set", ["py", "int"], None, None], ["py", "int"], ["py", "bytes"],
              ["number", None], ["any"], ["choice", [["py", "int"], ["py", "bytes"]]]]


def pend_case(S, rng, elem=None, shape=None):
    """-> (constraint spec, wire spec): a tuple that, one or two mutable containers down, holds a back-reference to
    ITSELF (it is still open when the reference arrives: the receiver only has a Deferred for it) in a slot declared elem"""
    elem = elem or list(rng.choice(PEND_ELEMS))
    shape = shape or rng.choice(["list", "list", "dict", "list2", "tuple-list", "tuple-list-inner"])
    pre = [S.slice_vs(S.canon_vs((S.gen_value(elem, rng)))) for _ in range(rng.randint(0, 2))]
    if shape == "list":
        return ["tuple", [["list", elem, None, 0]]], ["wo", "tuple", [["wo", "list", pre + [["wp", 1]]]]]
    if shape == "dict":
        return (["tuple", [["dict", ["py", "bytes"], elem, None]]],
                ["wo", "tuple", [["wo", "dict", [["ws", False, 1, [107]], ["wp", 1]]]]])
    if shape == "list2":
        return (["tuple", [["py", "int"], ["list", ["list", elem, None, 0], None, 0]]],
                ["wo", "tuple", [["wi", "INT", 3, 3], ["wo", "list", [["wo", "list", pre + [["wp", 2]]]]]]])
    if shape == "tuple-list":        # reference to the OUTER of two nested tuples
        return (["tuple", [["tuple", [["list", elem, None, 0]]]]],
                ["wo", "tuple", [["wo", "tuple", [["wo", "list", pre + [["wp", 2]]]]]]])
    return (["tuple", [["tuple", [["list", elem, None, 0]]]]],          # ... to the INNER one
            ["wo", "tuple", [["wo", "tuple", [["wo", "list", pre + [["wp", 1]]]]]]])


def open_ref_cases(S):
    """a back-reference to an ENCLOSING list / dict that is still open (the receiver holds the real, partially filled
    container), placed before and after conforming members, one and two levels up, in list and dict-value slots whose
    declared constraint is a container of every kind.  Element constraints are free of Any/Optional, so the finished
    (cyclic) value can never satisfy the declaration.  -> [(constraint spec, wire spec)]"""
    out = []
    i1, i2 = ["wi", "INT", 1, 1], ["wi", "INT", 2, 2]
    key = lambda ch: ["ws", False, 1, [ch]]
    for elem, good, gv in [(["py", "int"], [i1, i2], [["i", 1], ["i", 2]]), (["py", "bytes"], [key(65)], [["b", [65]]]),
                           (["py", "str"], [S.slice_vs(["t", [97]])], [["t", [97]]]),
                           (["py", "bool"], [S.slice_vs(["B", True])], [["B", True]])]:
        inner = ["list", elem, None, 0]
        # list of lists: (list (reference <this list>) (list ..)), and the reference after a good member
        out.append((["list", inner, None, 0], ["wo", "list", [["wq", 0, ["l", []]], ["wo", "list", good]]]))
        out.append((["list", inner, None, 0], ["wo", "list", [["wo", "list", good], ["wq", 0, ["l", [["l", gv]]]]]]))
        # dict of dicts: (dict 's' (reference <this dict>) 'a' (dict ..))
        dinner = ["dict", ["py", "bytes"], elem, None]
        out.append((["dict", ["py", "bytes"], dinner, None],
                    ["wo", "dict", [key(115), ["wq", 0, ["d", []]], key(97), ["wo", "dict", [key(120), good[0]]]]]))
        # a list inside a dict inside the list that is referenced (two levels up)
        out.append((["list", ["dict", ["py", "bytes"], inner, None], None, 0],
                    ["wo", "list", [["wo", "dict", [key(107), ["wq", 1, ["l", []]]]]]]))
        # inside a tuple argument: the reference skips the tuple level
        out.append((["tuple", [["list", inner, None, 0], ["py", "int"]]],
                    ["wo", "tuple", [["wo", "list", [["wq", 0, ["l", []]]]], i1]]))
        # bounded containers: maxLength / minLength seen on the partial container only
        out.append((["list", ["list", elem, 2, 0], 3, 0], ["wo", "list", [["wq", 0, ["l", []]], ["wo", "list", good], ["wo", "list", good]]]))
    return out


def open_ref_sweep(ctx, S, E, runner, is_call):
    recs = []
    for cs, ws in open_ref_cases(S):
        if is_call:
            recs.append(guarded(ctx, runner, S, E, "open-ref", "open-ref", [("a", cs, False)], [ws], []))
        else:
            recs.append(guarded(ctx, runner, S, E, "open-ref", "open-ref", cs, ws))
    return [r for r in recs if r]


def has_pend(ws):
    return ws[0] == "wp" or (ws[0] == "wo" and any(has_pend(x) for x in ws[2]))


# ------------------------------------------------------------------------------- back-references to a CLOSED object of the
# right KIND but the wrong shape (what the token-level checks of the slot would have refused had it been sent in place)
def ref_shape_table(S):
    """(declared cs, [values of the declared container kind that violate it: arity / size / member type / member size],
    a conforming value)"""
    I = lambda n: ["i", n]
    B = lambda *b: ["b", list(b)]
    i1024, i32 = ["py", "int"], ["int", -1]
    return [
        (["tuple", [i1024, i1024]], [["T", [I(1)]], ["T", [I(1), I(2), I(3)]], ["T", []], ["T", [I(1), B(65)]]], ["T", [I(1), I(2)]]),
        (["tuple", []], [["T", [I(1)]]], ["T", []]),
        (["tuple", [i1024]], [["T", []], ["T", [I(1), I(2)]]], ["T", [I(1)]]),
        (["pytuple", [i1024, ["py", "bytes"]]], [["T", [I(1)]], ["T", [I(1), B(65), B(65)]]], ["T", [I(1), B(65)]]),
        (["tuple", [i32, i32]], [["T", [I(2 ** 40), I(1)]], ["T", [I(1)]]], ["T", [I(1), I(-2)]]),
        (["tuple", [i1024, ["tuple", [i1024, i1024]]]], [["T", [I(1), ["T", [I(1)]]]], ["T", [I(1), ["T", [I(1), I(2), I(3)]]]]],
         ["T", [I(1), ["T", [I(1), I(2)]]]]),
        (["list", i1024, 2, 0], [["l", [I(1), I(2), I(3)]]], ["l", [I(1), I(2)]]),
        (["list", i1024, None, 2], [["l", [I(1)]], ["l", []]], ["l", [I(1), I(2)]]),
        (["list", ["bytes", 1, 0], None, 0], [["l", [B(65, 66)]]], ["l", [B(65)]]),
        (["list", ["bytes", 0, 0], None, 0], [["l", [B(65)]]], ["l", [B()]]),
        (["list", ["tuple", [i1024, i1024]], None, 0], [["l", [["T", [I(1)]]]], ["l", [["T", [I(1), I(2)]], ["T", [I(1), I(2), I(3)]]]]],
         ["l", [["T", [I(1), I(2)]]]]),
        (["dict", ["py", "bytes"], i1024, 1], [["d", [[B(65), I(1)], [B(66), I(2)]]]], ["d", [[B(65), I(1)]]]),
        (["dict", ["py", "bytes"], ["tuple", [i1024, i1024]], None], [["d", [[B(65), ["T", [I(1)]]]]]], ["d", [[B(65), ["T", [I(1), I(2)]]]]]),
        (["set", i1024, 1, True], [["s", [I(1), I(2)]]], ["s", [I(1)]]),
    ]


def ref_shape_calls(S, full=False):
    """m(a, b): argument a arrives in full under a LAXER constraint (Any, or for tuples a TupleOf of the value's own arity),
    then the slot declared `tight` -- b itself, a member of b (list / dict value / tuple member), b by keyword, b Optional --
    holds OPEN reference <a>.  The referenced object is of the declared container kind but of another arity / size / member
    type / member size (or conforming: must be delivered).  ReferenceUnslicer.receiveChild and the final checkAllArgs are the
    only enforcement there is (no token of the object passes the slot's unslicer).  -> [(argspec, pos wires, kw wires)]"""
    out = []
    for tight, wrongs, good in ref_shape_table(S):
        for n, vs in enumerate(wrongs + [good]):
            first = S.slice_vs(vs)
            ref = ["wr", vs, 0]
            lax = [["any"]]
            if vs[0] == "T" and vs is not good:
                lax.append(["tuple", [["any"]] * len(vs[1])])
            slots = [(tight, False, ref, False), (["list", tight, None, 0], False, ["wo", "list", [ref]], False),
                     (["dict", ["py", "bytes"], tight, None], False, ["wo", "dict", [["ws", False, 1, [107]], ref]], False),
                     (["tuple", [["py", "int"], tight]], False, ["wo", "tuple", [["wi", "INT", 1, 1], ref]], False),
                     (tight, False, ref, True), (tight, True, ref, False)]
            if n > 1 and vs is not good and not full:          # (quick tier: the bare slot and one rotating slot)
                slots = [slots[0], slots[1 + n % 5]]
            for j, (bcs, opt, bws, bykw) in enumerate(slots):
                spec = [("a", lax[j % len(lax)], False), ("b", bcs, opt)]
                out.append((spec, [first] if bykw else [first, bws], [["b", bws]] if bykw else []))
    return out


def ref_shape_answers(S):
    """the same as RESULT: TupleOf(Any, tight) / TupleOf(Any, ListOf(tight)) / TupleOf(Any, DictOf(bytes, tight)) whose
    second member is (holds) a reference to the first, already closed, member.  -> [(cs, ws)]"""
    out = []
    for tight, wrongs, good in ref_shape_table(S):
        for vs in wrongs + [good]:
            first, ref = S.slice_vs(vs), ["wr", vs, ["sib", 0]]
            out.append((["tuple", [["any"], tight]], ["wo", "tuple", [first, ref]]))
            if vs is wrongs[0] or vs is good:
                out.append((["tuple", [["any"], ["list", tight, None, 0]]], ["wo", "tuple", [first, ["wo", "list", [["wr", vs, ["sib", 0, 1]]]]]]))
    return out


def has_ref(ws):
    return ws[0] == "wr" or (ws[0] == "wo" and any(has_ref(x) for x in ws[2]))


# ------------------------------------------------------------------------------- size parameters that are ZERO (not None)
ZERO_LEAVES = [["bytes", 0, 0], ["text", 0, 0]]        # (IntegerConstraint asserts maxBytes >= 4)


def zero_size_answers(S):
    """a size parameter of 0 is a limit (only the empty string / the empty container conform), not `no
    limit`: every leaf kind with its size at 0 -- inside ListOf / DictOf (key and value) / TupleOf / ChoiceOf / SetOf --
    and every container kind with its own size at 0, against the smallest non-empty body, a large one and the empty one.
    (The bare leaves go through hostile_sweep.)  -> [(cs, ws)]"""
    s0, s1, s9 = ["ws", False, 0, []], ["ws", False, 1, [65]], ["ws", False, 300, [121] * 300]
    U = lambda b: ["wo", "unicode", [b]]
    toks = {"bytes": [s0, s1, s9], "text": [U(s0), U(s1), U(["ws", False, 7, [97] * 7])]}
    key = ["ws", False, 1, [107]]
    out = []
    for z in ZERO_LEAVES:
        for t in toks[z[0]]:
            out.append((["list", z, None, 0], ["wo", "list", [t]]))
            out.append((["list", z, 3, 0], ["wo", "list", [toks[z[0]][0], t]]))
            out.append((["dict", ["py", "bytes"], z, None], ["wo", "dict", [key, t]]))
            out.append((["dict", z, ["bytes", 5, 0], None], ["wo", "dict", [t, s1]]))
            out.append((["tuple", [z, z]], ["wo", "tuple", [toks[z[0]][0], t]]))
            if z[0] == "bytes":                      # (ChoiceOf over token-level alternatives)
                out.append((["choice", [z, ["py", "int"]]], t))
            out.append((["set", z, None, None], ["wo", "set", [t]]))
    one = ["wi", "INT", 1, 1]
    for cs, wss in [(["list", ["py", "int"], 0, 0], [["wo", "list", [one]], ["wo", "list", []]]),
                    (["dict", ["py", "bytes"], ["py", "int"], 0], [["wo", "dict", [key, one]], ["wo", "dict", []]]),
                    (["set", ["py", "int"], 0, None], [["wo", "set", [one]], ["wo", "immutable-set", [one]], ["wo", "set", []]]),
                    (["list", ["list", ["py", "int"], 0, 0], None, 0], [["wo", "list", [["wo", "list", [one]]]]])]:
        out += [(cs, ws) for ws in wss]
    return out



def _not_utf8(bs):
    try:
        bytes(bs).decode("utf-8")
        return False
    except (UnicodeDecodeError, ValueError):
        return True


def nontext_sites(ws):
    """which decoding sites of a wire tree hold a byte string that is not UTF-8: {"body", "reference"}"""
    out = set()
    if isinstance(ws, list) and ws and ws[0] in ("wo", "wc"):
        kids = ws[2]
        if ws[1] == "unicode" and kids and kids[0][0] == "ws" and _not_utf8(kids[0][3]):
            out.add("body")
        if ws[1] in ("my-reference", "their-reference") and any(k[0] == "ws" and _not_utf8(k[3]) for k in kids[1:3]):
            out.add("reference")
        for k in kids:
            out |= nontext_sites(k)
    return out


def decode_error_failure(ctx, errs, trees, case, what):
    """the connection died of a UnicodeDecodeError: which member of the six.ensure_str / decode family was it?"""
    sites = set()
    for t in trees:
        sites |= nontext_sites(t)
    if "reference" in sites:
        ctx.fail("oracle/non-utf8-reference-name-drops-connection", "a my-reference / their-reference sequence whose interface name or URL "
                 "is not valid UTF-8 raised UnicodeDecodeError in six.ensure_str (referenceable.py ReferenceUnslicer / "
                 "TheirReferenceUnslicer.receiveChild): the whole connection was lost instead of that one %s failing with a Violation: "
                 "%s; receive error %r" % (what, str(case)[:700], errs), replay=case)
    elif "body" in sites:
        ctx.fail("oracle/non-utf8-text-body-drops-connection", "an OPEN unicode sequence whose STRING body is not valid UTF-8 raised "
                 "UnicodeDecodeError in UnicodeUnslicer.receiveChild (obj.decode('UTF-8')): the whole connection was lost instead of "
                 "that one %s failing with a Violation: %s; receive error %r" % (what, str(case)[:700], errs), replay=case)
    else:
        ctx.fail("oracle/non-utf8-keyword-name-drops-connection", "a STRING token that is not valid UTF-8, standing where "
                 "ArgumentUnslicer expects a keyword NAME, raised UnicodeDecodeError in six.ensure_str(token): the whole connection "
                 "was lost instead of that one call failing with a Violation ('unknown argument'): %s; receive error %r"
                 % (str(case)[:600], errs), replay=case)


_noted = []


def note_url_not_a_furl(ctx, errs, case):
    """NOT a known finding (reported to the lead, kept as a note): a my-reference URL that is text but no FURL at all makes
    SturdyRef(url) raise ValueError / BadFURLError in RemoteReferenceTracker.__init__; it escapes dataReceived like the by-design
    BananaError for a foreign tubid does, so the effect is the same (connection lost), but through an unintended exception"""
    if not _noted and any(e.startswith(("ValueError", "BadFURLError")) for e in errs):
        _noted.append(1)
        ctx.note("oracle/reference-url-not-a-furl-drops-connection (note, not a listed finding): a my-reference whose URL is text but not a "
                 "FURL raised %s out of dataReceived (RemoteReferenceTracker.__init__: SturdyRef(url)); minimal input: my-reference clid 90, "
                 "name b'RIVBase', url b'pb:'; smallest repair: except (ValueError, BadFURLError) -> BananaError next to the tubid test"
                 % (errs[0][:60],))


# a text URL in a my-reference is parsed and compared with the peer's Tub identity: connection lost by design (BananaError
# "inbound reference claims bad tubid", C05) -- or through an escaping ValueError / BadFURLError when it is no FURL at all
URL_CHECK_ERRORS = ("unknown FURL prefix", "inbound reference claims bad tubid", "is not a valid tubid", "BadFURLError", "remote_tubref")

# --------------------------------------------------------------------------------------------------------------- calls
def classify_dead(ctx, w, family, case, what):
    errs = w.recv_errors
    if family == "choice-container" and errs and all(e.startswith("AssertionError") for e in errs):
        # the setConstraint assertion of a child Unslicer under ChoiceOf: C12's known finding D7a (conforming values die too)
        ctx.hist("choiceof-container-assertion (C12 finding D7a)", what)
        return
    if any("invalid token type" in e for e in errs):
        ctx.fail("oracle/strict-taster-drops-connection", "a wrong token type under a strictTaster constraint dropped the whole "
                 "connection instead of failing one call: %s; receive error %r" % (str(case)[:600], errs), replay=case)
    elif errs and all(e.startswith("BananaError") and any(m in e for m in LEAF_PROTOCOL_ERRORS) for e in errs):
        # structurally malformed leaf sequence (not a schema question): a protocol error by design
        ctx.hist("protocol-error-on-malformed-leaf", errs[0][:60])
    else:
        ctx.fail("oracle/connection-dropped-by-nonconforming-%s" % what, "a non-conforming %s made the connection unusable "
                 "instead of failing that one call: %s; receive errors %r" % (what, str(case)[:1200], errs), replay=case)


FIXED_CALLS = [
    # (tag, argspec, pos ws, kw ws)  -- argspec rows: (name, cs, optional)
    ("short-tuple", [("a", ["tuple", [["py", "int"], ["py", "int"]]], False)], [["wo", "tuple", [["wi", "INT", 7, 7]]]], []),
    ("long-text", [("a", ["text", 3, 0], False)], [["wo", "unicode", [["ws", False, 7, [116, 111, 111, 108, 111, 110, 103]]]]], []),
    ("forged-int", [("a", ["int", -1], False)], [["wi", "INT", 2 ** 40, 2 ** 40]], []),
    ("empty-bool", [("a", ["py", "bool"], False)], [["wo", "boolean", []]], []),
    ("ref-list-as-tuple", [("a", ["any"], False), ("b", ["tuple", [["py", "int"], ["py", "int"]]], False)],
     [["wo", "list", [["wi", "INT", 1, 1], ["wi", "INT", 2, 2]]], ["wr", ["l", [["i", 1], ["i", 2]]], 0]], []),
    ("ref-list-as-list", [("a", ["any"], False), ("b", ["list", ["py", "int"], 2, 0], False)],
     [["wo", "list", [["wi", "INT", 1, 1], ["wi", "INT", 2, 2]]], ["wr", ["l", [["i", 1], ["i", 2]]], 0]], []),
    ("ref-long-list", [("a", ["any"], False), ("b", ["list", ["py", "int"], 1, 0], False)],
     [["wo", "list", [["wi", "INT", 1, 1], ["wi", "INT", 2, 2]]], ["wr", ["l", [["i", 1], ["i", 2]]], 0]], []),
    ("ref-under-int", [("a", ["any"], False), ("b", ["py", "int"], False)],
     [["wo", "list", []], ["wr", ["l", []], 0]], []),
    ("strict-int-under-str", [("a", ["py", "str"], False)], [["wi", "INT", 5, 5]], []),
    ("missing", [("a", ["py", "int"], False), ("b", ["py", "int"], False)], [["wi", "INT", 5, 5]], []),
    ("optional-missing", [("a", ["py", "int"], False), ("b", ["py", "int"], True)], [["wi", "INT", 5, 5]], []),
    ("extra-positional", [("a", ["py", "int"], False)], [["wi", "INT", 5, 5], ["wi", "INT", 6, 6]], []),
    ("duplicate", [("a", ["py", "int"], False)], [["wi", "INT", 5, 5]], [["a", ["wi", "INT", 6, 6]]]),
    ("duplicate-kw", [("a", ["py", "int"], False)], [], [["a", ["wi", "INT", 5, 5]], ["a", ["wi", "INT", 6, 6]]]),
    ("unknown-kw", [("a", ["py", "int"], False)], [["wi", "INT", 5, 5]], [["z", ["wi", "INT", 6, 6]]]),
    ("list-minlength-unbounded-1", [("a", ["list", ["py", "int"], None, 2], False)], [["wo", "list", [["wi", "INT", 1, 1]]]], []),
    ("list-minlength-unbounded-0", [("a", ["list", ["py", "int"], None, 1], False)], [["wo", "list", []]], []),
    ("list-minlength-bounded", [("a", ["list", ["py", "int"], 3, 2], False)], [["wo", "list", [["wi", "INT", 1, 1]]]], []),
    ("bytes-minlength-unbounded", [("a", ["bytes", None, 2], False)], [["ws", False, 1, [65]]], []),
    ("text-minlength-unbounded", [("a", ["text", None, 2], False)], [["wo", "unicode", [["ws", False, 1, [65]]]]], []),
    ("zero-maxlength-bytes", [("a", ["bytes", 0, 0], False)], [["ws", False, 1, [65]]], []),
]


def guarded(ctx, fn, *a):
    try:
        return fn(ctx, *a)
    except Exception as e:
        import traceback
        ctx.fail("oracle/implementation-raised", "driving the implementation raised %s: %s; case %s"
                 % (type(e).__name__, str(e)[:300], str(a[3:])[:800]), replay=dict(case=repr(a[3:])[:4000], traceback=traceback.format_exc()[-1500:]))
        return None


def run_call(ctx, S, E, tag, family, argspec, pos, kws, vocab=0, direct=None, per_instance=None, raw=None, flags=None, inherit=None):
    """raw = (count, children of the `arguments` sequence) replaces the honest framing of pos / kws;
    flags = "__ignoreUnknown__" | "__acceptUnknown__": the schema is RemoteMethodSchema(<flag>=True, **constraints);
    inherit = dict(chain, level, meth): the target's RemoteInterface is number `level` of a chain of interfaces deriving from
    one another, the call addresses `meth`; argspec must be effective_argspec(inherit) (None: undeclared there)"""
    if per_instance is None:
        # the interface is declared on the target INSTANCE; instances of one group share one python class
        per_instance = ("g%d" % ctx.rng.randrange(6)) if ctx.rng.random() < 0.3 else False
    ctx.hist("interface_declared_on", "instance (directlyProvides)" if per_instance else "class (@implementer)")
    if direct is None:
        direct = ctx.rng.random() < 0.4                # prototype function or RemoteMethodSchema(**kwargs)
    if flags:
        direct = True
    ctx.hist("schema_declared_by", "RemoteMethodSchema(**kwargs)" if direct else "prototype function")
    ctx.hist("unknown_argument_flag", flags or "-")
    def build_args(spec):
        cons_ = []
        for n, cs, opt in spec:
            c = S.build(cs)
            cons_.append(S.schema.Optional(c, None) if opt else c)
        return [n for n, _, _ in spec], cons_
    world_kw = {}
    if inherit:
        world_kw = dict(chain=[{name: build_args([tuple(x) for x in spec]) + (None,) for name, spec in layer} for layer in inherit["chain"]],
                        level=inherit["level"], meth=inherit["meth"])
        ctx.hist("inherited_interface", "level %d of %d, %s" % (inherit["level"], len(inherit["chain"]),
                                                               "declared" if argspec is not None else "undeclared"))
    names_, cons = build_args(argspec or [])
    res, w = S.call_trial(names_ + ([flags] if flags else []), cons + ([True] if flags else []),
                          pos, [(n, x) for n, x in kws], vocab=vocab, direct=direct, per_instance=per_instance, raw=raw, **world_kw)
    out = S.outcome_of(res)
    count, items = raw if raw is not None else S.flat_items(pos, [(n, x) for n, x in kws])
    case = dict(tag=tag, family=family, argspec=argspec, count=count, items=items, direct=direct, per_instance=per_instance, flags=flags)
    if inherit:
        case["inherit"] = inherit
    if raw is None:
        case.update(pos=pos, kws=kws)
    rec = dict(case=case, ms=ms_term(S, w.ms) if w.ms is not None else None)
    calls = w.target.calls
    if len(calls) > 1:
        ctx.fail("oracle/invoked-twice", "one call sequence invoked the method %d times: %r" % (len(calls), case), replay=case)
    if calls:
        args, kwargs = calls[0][1], calls[0][2]
        # THE PROPERTY: what user code saw must pass the declared schema (judged by the real constraint objects)
        why = None
        if argspec is None or w.ms is None:
            why = "no interface of the target's resolution order declares the method"
        elif calls[0][0] != w.meth:
            why = "remote_%s ran for a call that names %s" % (calls[0][0], w.meth)
        else:
            try:
                w.ms.checkAllArgs(args, kwargs, True)
            except S.Violation as v:
                why = "the implementation's own checkAllArgs: %s" % v
        if why is None and not S.py_args_ok(argspec, args, kwargs):
            why = "the reference semantics of the declared constraints"
        if why:
            ctx.fail("oracle/unchecked-argument-reached-user-code", "remote_%s ran with arguments that violate its declared "
                     "schema%s (judged by %s): args=%r kwargs=%r; stream %s"
                     % (calls[0][0], " -- the declaration of the most derived RemoteInterface of the target's resolution order that "
                        "declares the method, %r" % (argspec,) if inherit else "", why, S.canon(list(args)), S.canon(kwargs),
                        str(case)[:1200]), replay=case)
        rec["outcome"] = "invoked"
        rec["args"] = [S.canon(x) for x in args]
        rec["kwargs"] = sorted([n, S.canon(v)] for n, v in kwargs.items())
        if out[0] != "ok":
            ctx.fail("oracle/invoked-but-failed", "the method ran but the caller got %r: %r" % (out, case), replay=case)
    elif not w.alive():
        rec["outcome"] = "dead-dupkey" if any("duplicate key" in e for e in w.recv_errors) else "dead"
        if w.recv_errors and all(e.startswith("UnicodeDecodeError") for e in w.recv_errors):
            # the family repaired by 0c0affc / bc46263 / 66cc69a (the model's *_nontext_*_violation = false gives "connection
            # lost" too); the reference name / URL sites are not repaired (known finding)
            decode_error_failure(ctx, w.recv_errors, items, case, "call")
        elif family == "reference-url" and w.recv_errors and all(any(m in e for m in URL_CHECK_ERRORS) for e in w.recv_errors):
            ctx.hist("reference_url_check", w.recv_errors[0][:50])
            note_url_not_a_furl(ctx, w.recv_errors, case)
        elif flags == "__ignoreUnknown__" and w.recv_errors and all(e.startswith("AssertionError") for e in w.recv_errors):
            ctx.fail("oracle/ignore-unknown-drops-connection", "a keyword argument the schema does not declare, sent to a method "
                     "whose RemoteMethodSchema says __ignoreUnknown__=True, tripped `assert accept` in ArgumentUnslicer.receiveChild: "
                     "the whole connection was lost instead of the argument being dropped / the call failing: %s; receive error %r"
                     % (str(case)[:600], w.recv_errors), replay=case)
        else:
            classify_dead(ctx, w, family, case, "call")
    elif out[0] in ("exc", "exc-remote") and flags and "AttributeError" in str(out[1]):
        rec["outcome"] = "failed"
        ctx.fail("oracle/unknown-flag-attributeerror", "a keyword argument the schema does not declare, sent to a method whose "
                 "RemoteMethodSchema says %s=True, made checkAllArgs call None.checkObject: the call failed with %r instead of a "
                 "Violation (or of being accepted): %s" % (flags, out, str(case)[:600]), replay=case)
        if not w.probe():
            ctx.fail("oracle/sibling-affected", "after a failed call the connection no longer serves other calls: %r" % (case,), replay=case)
    else:
        rec["outcome"] = "violation"
        if out[0] not in ("violation-local", "violation-remote"):
            ctx.fail("oracle/not-a-violation", "the call was refused but the caller got %r instead of a Violation: %r"
                     % (out, str(case)[:1200]), replay=case)
        if not w.probe():
            ctx.fail("oracle/sibling-affected", "after a refused call the connection no longer serves other calls: %r" % (case,),
                     replay=case)
    ctx.hist("call_outcome", rec["outcome"])
    ctx.hist("call_family", family)
    ctx.case(["call", argspec, count, items, flags, inherit], nontrivial=True)
    ctx.sample(dict(kind="call", family=family, argspec=argspec, count=str(count)[:40], items=str(items)[:200], flags=flags, outcome=rec["outcome"]))
    return rec


CLAIMS = [None, "RIVBase", "RIVDerived", "RIVSub", "RIVOther", "RemoteInterface", "RIVNope"]


def myref_ws(clid, claim):
    kids = [["wi", "INT", clid, clid]]
    if claim is not None:
        kids.append(["ws", False, len(claim), list(claim.encode())])
    return ["wo", "my-reference", kids]


def remote_sweep(ctx, S, E):
    """arguments declared with a RemoteInterface (through the public shorthand: the interface itself), every interface of
    an inheritance chain as declaration, and a my-reference claiming every interface of the chain / an unrelated one /
    the root / none / an unregistered name -- hand-encoded, and sent by a real schema-less caller: a my-reference is not
    examined at token level, the final checkAllArgs is the only enforcement"""
    S.family()
    recs = []
    for decl in ["RIVBase", "RIVDerived", "RIVSub", "RIVOther", "RemoteInterface", None]:
        for i, claim in enumerate(CLAIMS):
            recs.append(guarded(ctx, run_call, S, E, "remote", "remote", [("a", ["remote", decl], False)], [myref_ws(7 + i, claim)], []))
        recs.append(guarded(ctx, run_call, S, E, "remote", "remote", [("a", ["list", ["remote", decl], None, 0], False)],
                            [["wo", "list", [myref_ws(3, "RIVDerived"), myref_ws(4, "RIVBase"), myref_ws(5, "RIVSub")]]], []))
        for ws in (["wi", "INT", 5, 5], ["ws", False, 1, [65]], ["wo", "list", []], ["wo", "none", []]):
            recs.append(guarded(ctx, run_call, S, E, "remote", "remote", [("a", ["remote", decl], False)], [ws], []))
        # the real sender: a schema-less caller passes a live Referenceable that implements `claim`
        for claim in CLAIMS[:6]:
            c = S.build(["remote", decl])
            w = S.World(["a"], [c], None, shared_iface=False)
            res = w.call((S.referenceable_claiming(claim),), {})
            calls = w.target.calls
            if calls and not S.py_args_ok([("a", ["remote", decl], False)], calls[0][1], calls[0][2]):
                case = dict(declared=decl, claimed=claim, sender="real schema-less callRemote")
                ctx.fail("oracle/unchecked-argument-reached-user-code", "remote_m(a=%s) ran with a RemoteReference that claims %r: %r"
                         % (decl, claim, case), replay=case)
            ctx.case(["remote-real", decl, claim], nontrivial=True)
            ctx.hist("remote_real", "invoked" if calls else "refused")
    return [r for r in recs if r]


# keyword names that Python's strict UTF-8 decoder refuses (stray continuation byte, overlong forms, a surrogate, beyond
# U+10FFFF, truncated sequences, 0xFF) and non-ASCII names it accepts (2-, 3-, 4-byte forms at their boundaries)
NONTEXT_NAMES = [[168, 97], [192, 128], [193, 191], [224, 159, 191], [237, 160, 128], [244, 144, 128, 128], [245, 128, 128, 128],
                 [97, 195], [226, 130], [240, 159, 152], [255], [97, 128], [240, 143, 191, 191]]
TEXT_NAMES = [[195, 169], [194, 128], [223, 191], [224, 160, 128], [237, 159, 191], [238, 128, 128], [239, 191, 191],
              [240, 144, 128, 128], [244, 143, 191, 191], [226, 130, 172, 97]]


def nontext_value_cases(S):
    """OPEN unicode sequences whose BODY is every byte string of NONTEXT_NAMES (refused by Python's strict decoder: stray
    continuation byte, overlong forms, a surrogate, beyond U+10FFFF, truncated sequences, 0xFF) and of TEXT_NAMES (non-ASCII
    text at the 2-, 3-, 4-byte boundaries), in every kind of slot that admits text: bare (str / maxLength / Any), first and
    last member of a list, tuple member, dict value and key, set member, two levels down, by keyword, Optional, followed by a
    second string.  A body that is not UTF-8 must fail that one call with a Violation; one that is must arrive decoded.
    -> [(argspec, pos wires, kw wires)]"""
    out = []
    st, i1 = ["py", "str"], ["wi", "INT", 1, 1]
    ok = S.slice_vs(["t", [111, 107]])
    A = lambda cs, opt=False: [("a", cs, opt)]
    FULL = NONTEXT_NAMES[:4] + TEXT_NAMES[:2]            # every slot for these, the bare slot + two rotating ones for the rest
    for j, body in enumerate(NONTEXT_NAMES + TEXT_NAMES):
        t = ["wo", "unicode", [["ws", False, len(body), list(body)]]]
        n = len(body)
        slots = [
            (A(st), [t], []), (A(["text", n, 0]), [t], []), (A(["any"]), [t], []),
            (A(["list", st, 3, 0]), [["wo", "list", [t, ok]]], []), (A(["list", ["text", n, 0], None, 0]), [["wo", "list", [ok, t]]], []),
            (A(["tuple", [["py", "int"], st]]), [["wo", "tuple", [i1, t]]], []),
            (A(["dict", ["py", "bytes"], st, None]), [["wo", "dict", [["ws", False, 1, [107]], t]]], []),
            (A(["dict", st, ["py", "int"], 2]), [["wo", "dict", [t, i1]]], []),
            (A(["set", st, None, True]), [["wo", "set", [t]]], []),
            (A(["any"]), [["wo", "list", [["wo", "dict", [["ws", False, 1, [107]], ["wo", "tuple", [t]]]]]]], []),
            ([("a", ["py", "int"], False), ("b", st, False)], [i1], [["b", t]]),
            ([("a", ["py", "int"], False), ("b", st, True)], [i1, t], []),
            (A(st), [["wo", "unicode", [["ws", False, len(body), list(body)], ["ws", False, 1, [97]]]]], []),
        ]
        out += slots if body in FULL else [slots[0], slots[1 + (2 * j) % 12], slots[1 + (2 * j + 1) % 12]]
    return out


def nontext_value_answers(S):
    """the same bodies as RESULT: bare, under maxLength, in a list, as a dict value, under Any.  -> [(cs, ws)]"""
    out = []
    st = ["py", "str"]
    FULL = NONTEXT_NAMES[:4] + TEXT_NAMES[:2]
    for j, body in enumerate(NONTEXT_NAMES + TEXT_NAMES):
        t = ["wo", "unicode", [["ws", False, len(body), list(body)]]]
        slots = [(st, t), (["text", len(body), 0], t), (["any"], t), (["list", st, None, 0], ["wo", "list", [S.slice_vs(["t", [97]]), t]]),
                 (["dict", ["py", "bytes"], st, None], ["wo", "dict", [["ws", False, 1, [107]], t]]),
                 (["any"], ["wo", "tuple", [t, ["wi", "INT", 1, 1]]])]
        out += slots if body in FULL else [slots[0], slots[1 + j % 5]]
    return out


def nontext_reference_cases(S):
    """my-reference sequences whose interface NAME / URL is a byte string of NONTEXT_NAMES[:4] / TEXT_NAMES[:2], under Any, under
    RemoteInterfaceConstraint(None), in a list, as a dict value.  (A text name is a claim like any other: unregistered.)
    -> [(family, argspec, pos wires)]"""
    out = []
    A = lambda cs: [("a", cs, False)]
    ri = [82, 73, 86, 66, 97, 115, 101]            # RIVBase
    for k, bs in enumerate(NONTEXT_NAMES[:4] + TEXT_NAMES[:2]):
        nm_ = ["wo", "my-reference", [["wi", "INT", 40 + k, 40 + k], ["ws", False, len(bs), list(bs)]]]
        url = ["wo", "my-reference", [["wi", "INT", 60 + k, 60 + k], ["ws", False, len(ri), ri], ["ws", False, len(bs), list(bs)]]]
        fam_url = "reference-name" if _not_utf8(bs) else "reference-url"
        out += [("reference-name", A(["any"]), [nm_]), ("reference-name", A(["remote", None]), [nm_]),
                ("reference-name", A(["list", ["any"], None, 0]), [["wo", "list", [["wi", "INT", 1, 1], nm_]]]),
                ("reference-name", A(["dict", ["py", "bytes"], ["any"], None]), [["wo", "dict", [["ws", False, 1, [107]], nm_]]]),
                (fam_url, A(["any"]), [url]), (fam_url, A(["remote", "RIVBase"]), [url])]
    # text URLs that are no FURL / name another Tub: connection lost by the identity check (not a schema question; not modelled)
    for u in (b"pb:", b"pb://qqqqqqqqqqqqqqqqqqqqqqqqqqqqqqqq@127.0.0.1:1/x"):
        out.append(("reference-url", A(["any"]), [["wo", "my-reference", [["wi", "INT", 90, 90], ["ws", False, len(ri), ri], ["ws", False, len(u), list(u)]]]]))
    return out


def their_reference_cases(ctx, S, E):
    """their-reference (gift) sequences whose URL is not UTF-8: TheirReferenceUnslicer.receiveChild decodes it with
    six.ensure_str as well (gifts are outside the Coq model and a loopback Broker has no Tub to fetch a gift: oracle only,
    judged by the exception that reaches reportReceiveError)"""
    for bs in NONTEXT_NAMES[:5]:
        ws = ["wo", "their-reference", [["wi", "INT", 7, 7], ["ws", False, len(bs), list(bs)]]]
        res, w = S.call_trial(["a"], [S.schema.Any()], [ws], [])
        case = dict(tag="their-reference", items=[ws])
        ctx.case(["their-reference", bs], nontrivial=True)
        ctx.hist("their_reference_outcome", "dead: " + (w.recv_errors[0][:40] if w.recv_errors else "?") if not w.alive() else S.outcome_of(res)[0])
        if not w.alive() and w.recv_errors and all(e.startswith("UnicodeDecodeError") for e in w.recv_errors):
            decode_error_failure(ctx, w.recv_errors, [ws], case, "call")


def framing_cases(S):
    """the `arguments` sequence with a count token that does not match what follows, tokens of the wrong kind where a
    count / a keyword name / a value is expected, and sequences that stop early -- for methods of 0..3 arguments.
    -> [(argspec, count, children)]"""
    vals = {"a": (["py", "int"], ["wi", "INT", 5, 5]), "b": (["list", ["py", "bytes"], 2, 0], ["wo", "list", [["ws", False, 1, [65]]]]),
            "c": (["py", "str"], S.slice_vs(["t", [120]]))}
    name = lambda n: ["ws", False, len(n), list(n.encode())]
    out = []
    for nargs in (0, 1, 2, 3):
        names = NAMES[:nargs]
        argspec = [(n, vals[n][0], i > 0) for i, n in enumerate(names)]
        wires = [vals[n][1] for n in names]
        for count in range(0, nargs + 3):
            for npos in range(0, nargs + 2):
                # npos values sent as if positional (beyond the declared ones: one more integer), the rest by keyword
                pos = (wires + [["wi", "INT", 9, 9], ["wi", "INT", 9, 9]])[:npos]
                kw = []
                for n in names[npos:]:
                    kw += [name(n), vals[n][1]]
                out.append((argspec, count, pos + kw))
        if nargs:
            five = ["wi", "INT", 5, 5]
            out.append((argspec, None, []))                                   # no count at all
            out.append((argspec, None, [name("a"), five]))                    # a name where the count is expected
            out.append((argspec, ["wi", "NEG", 1, -1], wires[:1]))            # count is a NEG / LONGINT / list / string
            out.append((argspec, ["wi", "LONGINT", 5, 2 ** 39], wires[:1]))
            out.append((argspec, ["wo", "list", []], wires[:1]))
            out.append((argspec, 1000, wires))                                # a huge count
            out.append((argspec, 0, [name("a")]))                             # a name without its value
            out.append((argspec, 0, [name("a"), five, name("a"), five]))      # the same keyword twice
            out.append((argspec, 1, [five, name("a"), five]))                 # a keyword the count already covers
            out.append((argspec, 0, [name("a"), name("a")]))                  # a name where the value is expected
            out.append((argspec, 0, [["ws", True, 4, list(b"list")], five]))  # a VOCAB token as (unknown) keyword name
            out.append((argspec, 0, [["wf", 4609434218613702656], five]))     # a float where a name is expected
            out.append((argspec, 0, [["wo", "list", []], five]))              # a list where a name is expected
            out.append((argspec, 0, [name("a"), five, name("zz"), five]))     # an unknown name after a known one
            for bad in NONTEXT_NAMES + TEXT_NAMES:                            # names that are not UTF-8 / non-ASCII text
                out.append((argspec, 0, [["ws", False, len(bad), bad], five]))
                out.append((argspec, 1, [five, ["ws", False, len(bad), bad], five, name("b"), five]))
    return out


def binding_cases(S):
    """every way of declaring three arguments required / Optional (8), every positional count 0..3, every subset of the
    remaining names given by keyword: which calls bind all required names is decided by checkAllArgs alone (token-level
    checks cannot see an absent argument).  -> [(argspec, pos wires, kw wires)]"""
    five = ["wi", "INT", 5, 5]
    out = []
    for mask in range(8):
        argspec = [(n, ["py", "int"], bool(mask >> i & 1)) for i, n in enumerate(NAMES)]
        for npos in range(4):
            rest = NAMES[npos:]
            for sub in range(1 << len(rest)):
                kws = [[n, five] for i, n in enumerate(rest) if sub >> i & 1]
                out.append((argspec, [five] * npos, kws))
    return out


def flag_cases(S):
    """methods whose RemoteMethodSchema carries __ignoreUnknown__ / __acceptUnknown__: calls with declared arguments only,
    with an unknown keyword before / after / instead of them, with an unknown keyword whose value is a container, and
    with the unknown name given twice.  -> [(flag, argspec, count, children)]"""
    name = lambda n: ["ws", False, len(n), list(n.encode())]
    five, lst = ["wi", "INT", 5, 5], ["wo", "list", [["wi", "INT", 5, 5]]]
    spec1 = [("a", ["py", "int"], False)]
    spec2 = [("a", ["py", "int"], False), ("b", ["py", "bytes"], True)]
    out = []
    for flag in ("__ignoreUnknown__", "__acceptUnknown__"):
        for spec in (spec1, spec2):
            out.append((flag, spec, 1, [five]))
            out.append((flag, spec, 0, [name("a"), five]))
            out.append((flag, spec, 1, [five, name("z"), five]))
            out.append((flag, spec, 0, [name("z"), five, name("a"), five]))
            out.append((flag, spec, 0, [name("a"), five, name("z"), lst]))
            out.append((flag, spec, 1, [five, name("z"), five, name("z"), five]))
            out.append((flag, spec, 1, [five, name("a"), five]))
            out.append((flag, spec, 0, [name("z"), five]))
            out.append((flag, spec, 2, [five, five]))
            # an unknown name that is text goes the flag's way, one that is not UTF-8 is a Violation before the flag is consulted
            for bs in NONTEXT_NAMES[:6] + TEXT_NAMES[:6]:
                out.append((flag, spec1, 1, [five, ["ws", False, len(bs), bs], five]))
    return out


def inherit_cases(S):
    """RemoteInterfaces that derive from RemoteInterfaces: a sub-interface re-declares a method tighter / looser / with
    another type / with an argument more / with an argument less, inherits it unchanged, adds a method; two and three
    levels; the target implements the most derived interface, an intermediate one or the root.  Every stream is sent to
    every level: what governs it is the declaration of the most derived interface AT OR BELOW the implemented one that
    declares the method (so one stream is accepted at one level and must be refused at the next).
    -> [(inherit, pos wires, kw wires)]"""
    B = lambda n: ["ws", False, n, [107] * n]
    I = lambda v: ["wi", "INT", v, v]
    big = ["wi", "LONGINT", 5, 2 ** 39]
    by = lambda mx: ["bytes", mx, 0]
    a_ = lambda cs, opt=False: ("a", cs, opt)
    b_ = lambda cs, opt=False: ("b", cs, opt)
    i32, i1024, i8 = ["int", -1], ["py", "int"], ["int", 8]
    fam = [
        # (chain, [(meth, pos, kws)..])
        ("tighter", [[["m", [a_(by(20)), b_(by(20))]]], [["m", [a_(by(3)), b_(by(5))]]]],
         [("m", [B(3), B(5)], []), ("m", [B(4), B(1)], []), ("m", [B(1), B(6)], []), ("m", [], [["a", B(20)], ["b", B(1)]]),
          ("m", [B(21), B(1)], [])]),
        ("looser", [[["m", [a_(i32)]]], [["m", [a_(i8)]]]], [("m", [big], []), ("m", [I(5)], []), ("m", [], [["a", big]])]),
        ("retyped", [[["m", [a_(i1024)]]], [["m", [a_(["list", i1024, 2, 0])]]]],
         [("m", [I(5)], []), ("m", [["wo", "list", [I(5)]]], []), ("m", [["wo", "list", [I(5), I(6), I(7)]]], [])]),
        ("argument-added", [[["m", [a_(i1024)]]], [["m", [a_(i1024), b_(i1024)]]]],
         [("m", [I(5)], []), ("m", [I(5), I(6)], []), ("m", [I(5)], [["b", I(6)]]), ("m", [], [["b", I(6)]])]),
        ("argument-removed", [[["m", [a_(i1024), b_(i1024)]]], [["m", [a_(i1024)]]]],
         [("m", [I(5), I(6)], []), ("m", [I(5)], []), ("m", [I(5)], [["b", I(6)]])]),
        ("optional-tightened", [[["m", [a_(i1024), b_(by(3), True)]]], [["m", [a_(i1024), b_(by(1), True)]]]],
         [("m", [I(5)], [["b", B(2)]]), ("m", [I(5), B(2)], []), ("m", [I(5)], []), ("m", [I(5), B(1)], [])]),
        ("inherited-and-added", [[["m", [a_(by(3))]]], [["n", [a_(by(20))]]]],
         [("m", [B(4)], []), ("m", [B(3)], []), ("n", [B(4)], []), ("n", [B(21)], [])]),
        ("override-in-the-middle", [[["m", [a_(by(20))]]], [["m", [a_(by(3))]]], [["n", [a_(i1024)]]]],
         [("m", [B(4)], []), ("m", [B(3)], []), ("n", [I(5)], []), ("n", [B(1)], []), ("m", [B(21)], [])]),
        ("override-twice", [[["m", [a_(by(20))]]], [["m", [a_(by(10))]]], [["m", [a_(by(3))]]]],
         [("m", [B(4)], []), ("m", [B(11)], []), ("m", [B(3)], []), ("m", [B(21)], [])]),
        ("override-at-the-leaf", [[["m", [a_(by(3))]], ["n", [a_(i32)]]], [], [["m", [a_(by(20))]]]],
         [("m", [B(4)], []), ("m", [B(21)], []), ("n", [big], []), ("n", [I(5)], [])]),
    ]
    out = []
    for tag, chain, streams in fam:
        for level in range(len(chain)):
            for meth, pos, kws in streams:
                out.append((dict(tag=tag, chain=chain, level=level, meth=meth), pos, kws))
    return out


def method_name_cases(ctx, S, E):
    """CallUnslicer stage 2: the method NAME of a hand-built call -- not UTF-8, non-ASCII text, unknown, empty -- must fail
    that one call with a Violation (the stages before the arguments are not in the Coq model: oracle only)"""
    from foolscap import call as callmod
    five = ["wi", "INT", 5, 5]
    for mname in [bytes(b) for b in NONTEXT_NAMES + TEXT_NAMES] + [b"nosuch", b"", b"m"]:
        w = S.World(["a"], [int], None)
        req = callmod.PendingRequest(1, None, None, "m")
        w.cb.addRequest(req)
        res = []
        req.deferred.addBoth(res.append)

        def body(enc):
            oc, _ = enc.open(b"arguments")
            enc.tok(S.tokens.INT, 1)
            enc.wire(five)
            enc.close(oc)
        w.feed_call(1, body, methname=mname)
        out = S.outcome_of(res)
        case = dict(method_name=list(mname), arguments="1 5")
        ctx.case(["method-name", list(mname)], nontrivial=True)
        ran = len(w.target.calls)
        ctx.hist("method_name_outcome", "invoked" if ran else out[0] if w.alive() else "dead")
        if mname == b"m":
            if ran != 1 or out[0] != "ok":
                ctx.fail("oracle/not-delivered", "the conforming call m(5) was not delivered: %r" % (out,), replay=case)
            continue
        if ran:
            ctx.fail("oracle/unchecked-argument-reached-user-code", "a call naming method %r ran remote_m: %r" % (mname, case), replay=case)
        elif not w.alive():
            if any("UnicodeDecodeError" in e for e in w.recv_errors):
                ctx.fail("oracle/non-utf8-keyword-name-drops-connection", "a method name that is not valid UTF-8 raised UnicodeDecodeError in "
                         "CallUnslicer.receiveChild (six.ensure_str): the whole connection was lost instead of that one call failing with a "
                         "Violation: %r; receive error %r" % (case, w.recv_errors), replay=case)
            else:
                classify_dead(ctx, w, "method-name", case, "call")
        elif out[0] not in ("violation-local", "violation-remote"):
            ctx.fail("oracle/not-a-violation", "a call naming method %r was refused but the caller got %r instead of a Violation"
                     % (mname, out), replay=case)
        elif not w.probe():
            ctx.fail("oracle/sibling-affected", "after a refused call the connection no longer serves other calls: %r" % (case,), replay=case)


# ------------------------------------------------------------------------------- the whole `call` sequence
CALL_PROTOCOL_ERRORS = ("request ID must be an INT", "object ID must be an INT/NEG", "method name must be a STRING",
                        "arguments must be an 'arguments' sequence", "too many objects given to CallUnslicer",
                        "'call' sequence ended too early", "posarg count must be an INT", "kwarg name must be a STRING",
                        "'arguments' sequence ended too early")


def callseq_children():
    """children of OPEN call, as functions of (clid of the target with m(a=int, b=Optional(bytes)), clid of an object
    without RemoteInterface): the honest framing and every way of breaking it"""
    five = ["wi", "INT", 5, 5]
    rq, nm_ = ["wi", "INT", 1, 1], ["ws", False, 1, [109]]
    ob = lambda c: ["wi", "INT", c, c]
    args = ["wa", 1, [five]]
    bad = ["wa", 1, [["ws", False, 1, [65]]]]
    name = lambda n: ["ws", False, len(n), list(n.encode())]
    return [
        ("honest", lambda c, c2: [rq, ob(c), nm_, args]),
        ("honest-kw", lambda c, c2: [rq, ob(c), nm_, ["wa", 0, [name("b"), ["ws", False, 1, [65]], name("a"), five]]]),
        ("bad-argument", lambda c, c2: [rq, ob(c), nm_, bad]),
        ("missing-argument", lambda c, c2: [rq, ob(c), nm_, ["wa", 0, []]]),
        ("unknown-clid", lambda c, c2: [rq, ob(c + c2 + 77), nm_, args]),
        ("unknown-negative-clid", lambda c, c2: [rq, ["wi", "NEG", 77, -77], nm_, args]),
        ("unknown-method", lambda c, c2: [rq, ob(c), ["ws", False, 1, [120]], args]),
        ("method-name-not-utf8", lambda c, c2: [rq, ob(c), ["ws", False, 2, [168, 97]], args]),
        ("method-name-vocab", lambda c, c2: [rq, ob(c), ["ws", True, 4, list(b"list")], args]),
        ("arguments-before-name", lambda c, c2: [rq, ob(c), args]),
        ("arguments-first", lambda c, c2: [args]),
        ("no-arguments", lambda c, c2: [rq, ob(c), nm_]),
        ("empty", lambda c, c2: []),
        ("two-arguments", lambda c, c2: [rq, ob(c), nm_, args, args]),
        ("token-after-arguments", lambda c, c2: [rq, ob(c), nm_, args, five]),
        ("list-instead-of-arguments", lambda c, c2: [rq, ob(c), nm_, ["wo", "list", [five]]]),
        ("none-instead-of-arguments", lambda c, c2: [rq, ob(c), nm_, ["wo", "none", []]]),
        ("token-instead-of-arguments", lambda c, c2: [rq, ob(c), nm_, five]),
        ("reqid-neg", lambda c, c2: [["wi", "NEG", 1, -1], ob(c), nm_, args]),
        ("reqid-string", lambda c, c2: [nm_, ob(c), nm_, args]),
        ("clid-string", lambda c, c2: [rq, nm_, nm_, args]),
        ("clid-longint", lambda c, c2: [rq, ["wi", "LONGINT", 5, 2 ** 39], nm_, args]),
        ("name-int", lambda c, c2: [rq, ob(c), five, args]),
        ("schemaless-object", lambda c, c2: [rq, ob(c2), nm_, ["wa", 1, [["ws", False, 1, [65]]]]]),
        ("hostile-count", lambda c, c2: [rq, ob(c), nm_, ["wa", 2, [five]]]),
        ("extra-positional", lambda c, c2: [rq, ob(c), nm_, ["wa", 3, [five, ["ws", False, 1, [65]], five]]]),
    ]


CALLSEQ_CHAIN = [   # root first; what each RemoteInterface of the chain declares itself
    [["m", [("a", ["py", "int"], False), ("b", ["bytes", 3, 0], True)]], ["n", [("a", ["int", -1], False)]]],
    [["m", [("a", ["list", ["py", "int"], 2, 0], False)]]],                      # re-declares m with another type
    [["k", [("a", ["py", "bytes"], False)]], ["n", [("a", ["int", 8], False)]]],   # adds k, re-declares n looser
]


def callseq_inherit_children():
    """(tag, method name, arguments): call sequences for the chain above, each sent to a target of EVERY level"""
    five, lst = ["wi", "INT", 5, 5], ["wo", "list", [["wi", "INT", 5, 5]]]
    big = ["wi", "LONGINT", 5, 2 ** 39]
    return [("m-int", "m", ["wa", 1, [five]]), ("m-list", "m", ["wa", 1, [lst]]),
            ("m-int-kw-b", "m", ["wa", 1, [five, ["ws", False, 1, [98]], ["ws", False, 1, [65]]]]),
            ("n-small", "n", ["wa", 1, [five]]), ("n-big", "n", ["wa", 1, [big]]),
            ("k-bytes", "k", ["wa", 1, [["ws", False, 1, [65]]]]), ("k-int", "k", ["wa", 1, [five]]),
            ("undeclared", "zz", ["wa", 1, [five]])]


def callseq_cases(ctx, S, E):
    recs = []
    todo = [(tag, fn, None) for tag, fn in callseq_children()]
    rq = ["wi", "INT", 1, 1]
    for level in range(len(CALLSEQ_CHAIN)):
        for tag, meth, args in callseq_inherit_children():
            fn = (lambda meth_, args_: lambda c, c2: [rq, ["wi", "INT", c, c], ["ws", False, len(meth_), list(meth_.encode())], args_])(meth, args)
            todo.append(("inherit-level%d-%s" % (level, tag), fn, dict(chain=CALLSEQ_CHAIN, level=level, meth=meth)))
    for tag, fn, inh in todo:
        if inh is None:
            res, w, children = S.call_seq_trial(["a", "b"], [int, S.schema.Optional(bytes, None)], fn)
            case = dict(tag=tag, method="m(a=int, b=Optional(bytes))", children=children)
            spec = [("a", ["py", "int"], False), ("b", ["py", "bytes"], True)]
        else:
            def build_args(spec_):
                cons_ = [S.schema.Optional(S.build(cs), None) if opt else S.build(cs) for _, cs, opt in spec_]
                return ([n for n, _, _ in spec_], cons_, None)
            res, w, children = S.call_seq_trial([], [], fn, chain=[{name: build_args(sp) for name, sp in layer} for layer in inh["chain"]],
                                                level=inh["level"], meth=inh["meth"])
            case = dict(tag=tag, inherit=inh, children=children)
            spec = effective_argspec(inh)
        out = S.outcome_of(res)
        rec = dict(case=case, children=children, clid=w.clid, clid2=w.clid2, ms=ms_term(S, w.ms) if w.ms is not None else None,
                   layers=[[(n, ms_term(S, m_)) for n, m_ in layer] for layer in w.layers])
        calls = w.target.calls
        if calls:
            rec["outcome"] = "invoked"
            rec["args"] = [S.canon(x) for x in calls[0][1]]
            rec["kwargs"] = sorted([n, S.canon(v)] for n, v in calls[0][2].items())
            why = None
            if spec is None or w.ms is None or calls[0][0] != w.meth:
                why = "remote_%s ran, the call names %r which %s" % (calls[0][0], w.meth, "no interface of the target's resolution "
                                                                      "order declares" if spec is None else "is another method")
            else:
                try:
                    w.ms.checkAllArgs(calls[0][1], calls[0][2], True)
                except S.Violation as v:
                    why = str(v)
                if why is None and not S.py_args_ok(spec, calls[0][1], calls[0][2]):
                    why = "the reference semantics of the declaration %r" % (spec,)
            if why:
                ctx.fail("oracle/unchecked-argument-reached-user-code", "remote_%s ran with arguments that violate its declared schema (%s): "
                         "%r; call children %s" % (calls[0][0], why, (rec["args"], rec["kwargs"]), str(case)[:900]), replay=case)
        elif w.t2.calls:
            rec["outcome"] = "noschema"
        elif not w.alive():
            rec["outcome"] = "dead"
            errs = w.recv_errors
            if errs and all(e.startswith("BananaError") and any(m in e for m in CALL_PROTOCOL_ERRORS) for e in errs):
                ctx.hist("protocol-error-on-malformed-leaf", "call framing: " + [m for m in CALL_PROTOCOL_ERRORS if m in errs[0]][0])
            elif tag in ("list-instead-of-arguments", "none-instead-of-arguments") and errs and all(e.startswith(("AssertionError", "AttributeError")) for e in errs):
                # a sequence that is not `arguments` where the arguments belong: setConstraint(methodSchema) on its unslicer /
                # `assert isinstance(token, ArgumentUnslicer)` -- framing, not a schema question
                ctx.hist("protocol-error-on-malformed-leaf", "call framing: a sequence that is not `arguments` (assertion)")
            elif errs and all(e.startswith("UnicodeDecodeError") for e in errs):
                ctx.fail("oracle/non-utf8-keyword-name-drops-connection", "a method name that is not valid UTF-8 dropped the connection: %r; %r"
                         % (case, errs), replay=case)
            else:
                classify_dead(ctx, w, "call-sequence", case, "call")
        else:
            rec["outcome"] = "violation"
            if out[0] not in ("violation-local", "violation-remote"):
                ctx.fail("oracle/not-a-violation", "the call was refused but the caller got %r instead of a Violation: %r" % (out, str(case)[:600]), replay=case)
            if not w.probe():
                ctx.fail("oracle/sibling-affected", "after a refused call the connection no longer serves other calls: %r" % (case,), replay=case)
        ctx.hist("call_sequence_outcome", "%s: %s" % (tag, rec["outcome"]))
        ctx.case(["call-sequence", tag], nontrivial=True)
        recs.append(rec)
    return recs


def correspond_callseq(ctx, S, recs):
    if not recs:
        return
    def citem(ch):
        if ch[0] == "wa":
            cnt = [] if ch[1] is None else ["(WInt 129 %d %d)" % (ch[1], ch[1])] if isinstance(ch[1], int) else [S.to_wobj(ch[1])]
            return "(CArgs %s)" % coq_list(cnt + [S.to_wobj(x) for x in ch[2]])
        return "(CTok %s)" % S.to_wobj(ch)
    rows = []
    for r in recs:
        # the table of the addressed object: the own method tables of the interfaces of its resolution order (the interface
        # itself, then its bases), read off the real interface objects one by one -- Schema.iface_table puts them together
        tbl = "iface_table %s" % coq_list([coq_list(["(%d, %s)" % (nm(n), t) for n, t in layer]) for layer in r["layers"]])
        env = ("{| be_objs := [(%d, {| t_iface := Some (%s); t_methodSchema := None |}); (%d, {| t_iface := None; t_methodSchema := None |})]; "
               "be_require := false; be_active := [] |}" % (r["clid"], tbl, r["clid2"]))
        ea = coq_list([S.to_obj(x) for x in r.get("args", [])])
        ek = coq_list(["(%d, %s)" % (nm(n), S.to_obj(x)) for n, x in r.get("kwargs", [])])
        rows.append("(%s, %s, %s, %s)" % (env, coq_list([citem(c) for c in r["children"]]), ea, ek))
    body = EQB + "Definition cases : list (benv * list citem * list obj * list (Z * obj)) := " + coq_list(rows) + ".\n" + """
Definition kw_same2 (a b : list (Z * obj)) : bool :=
  (List.length a =? List.length b)%nat && forallb (fun x => existsb (fun y => Z.eqb (fst x) (fst y) && obj_eqb (snd x) (snd y)) b) a.
Eval vm_compute in map (fun x => let '(env, kids, ea, ek) := x in
  match recv_call_stream env kids with
  | QInvoke _ _ _ a' kw' => if list_eqbw obj_eqb ea a' && kw_same2 ek kw' then 1 else 4
  | QViol => 2 | QAbort => 3 | QFail => 5 | QNoSchema => 6 end) cases.
"""
    try:
        (vals,) = ctx.coq_eval("C02_callseq", body, requires=REQ)
    except common.CoqEvalError as e:
        ctx.fail("correspondence/broken", "the model could not be evaluated: " + str(e)[-1500:], replay=None, has_input=False)
        return
    CODE = {"invoked": 1, "violation": 2, "dead": 3, "noschema": 6}
    for r, m in zip(recs, vals):
        ctx.traces += 1
        if m != CODE[r["outcome"]]:
            ctx.fail("correspondence/call-sequence", "model and implementation disagree on %s: model code %r (1 invoked with the same "
                     "arguments, 2 violation, 3 connection lost, 4 invoked with other arguments, 6 no schema in force), implementation %s %r"
                     % (str(r["case"])[:1200], m, r["outcome"], r.get("args")), replay=dict(case=r["case"], model=m), has_input=False)
    ctx.extra["call_sequence_cases"] = len(recs)


# ------------------------------------------------------------------------------- RemoteCopy state under a stateSchema
_rc_counter = [0]
RC_ATTRS = [("a", ["py", "int"], False), ("b", ["tuple", [["int", None], ["int", None]]], False), ("c", ["list", ["int", None], 2, 0], True)]


def rc_streams(S):
    five, lst = ["wi", "INT", 5, 5], ["wo", "list", [["wi", "INT", 5, 5]]]
    name = lambda n: ["ws", False, len(n.encode()), list(n.encode())]
    pair = ["wo", "tuple", [five, five]]
    return [
        [name("a"), five, name("b"), pair], [name("b"), pair, name("a"), five, name("c"), lst],
        [name("a"), five], [], [name("c"), lst],                                                  # required attributes missing
        [name("a"), S.slice_vs(["t", [120]]), name("b"), pair],                                   # wrong type
        [name("a"), five, name("b"), ["wo", "tuple", [five]]],                                    # a 1-tuple for TupleOf(int, int)
        [name("a"), five, name("b"), pair, name("c"), ["wo", "list", [five, five, five]]],        # a third member under maxLength 2
        [name("a"), five, name("b"), pair, name("z"), five], [name("z"), lst, name("a"), five, name("b"), pair],   # unknown names
        [name("a"), five, name("a"), five],                                                       # duplicate name
        [name("a"), five, name("b")],                                                             # a name without its value
        [["ws", False, 2, [168, 97]], five], [name("a"), five, ["ws", False, 3, [237, 160, 128]], five],   # names that are not UTF-8
        [["ws", False, 2, [195, 169]], five],                                                     # an unknown non-ASCII text name
        [five, five], [["wo", "list", []], five],                                                 # a value where a name is expected
    ]


def rc_cases(ctx, S, E):
    """a RemoteCopy class whose stateSchema is AttributeDictConstraint(a=int, b=TupleOf(int, int), c=Optional(ListOf(int,
    maxLength=2))) -- plain, ignoreUnknown, acceptUnknown -- and one without stateSchema; the copyable sequence arrives as
    the argument of m(a=Any) with hand-chosen children.  THE PROPERTY: the state handed to setCopyableState satisfies
    the declared stateSchema, and a non-conforming sequence fails that one call with a Violation."""
    from foolscap import copyable, call as callmod
    from foolscap.copyable import AttributeDictConstraint
    recs = []
    todo = []
    for pth in sorted(glob.glob(os.path.join(common.VERIF, "corpus", "C02", "remotecopy-*.json"))):      # regression witnesses first
        wj = json.load(open(pth))
        todo.append((wj["mode"], wj["children"], wj.get("expect"), os.path.basename(pth)[:-5]))
    for mode in ("plain", "ignoreUnknown", "acceptUnknown", "no-schema"):
        for items in rc_streams(S):
            todo.append((mode, items, None, None))
    if True:
        for mode, items, expect, witness in todo:
            _rc_counter[0] += 1
            tname = "verif.rc%04d" % _rc_counter[0]
            seen = []
            kw = {mode: True} if mode in ("ignoreUnknown", "acceptUnknown") else {}
            ss = None if mode == "no-schema" else AttributeDictConstraint(
                *[(n, S.schema.Optional(S.build(cs), None) if opt else S.build(cs)) for n, cs, opt in RC_ATTRS], **kw)

            class RC(copyable.RemoteCopy):
                copytype = tname
                stateSchema = ss

                def setCopyableState(self, state, _seen=seen):
                    _seen.append(dict(state))
                    self.__dict__.update(state)
            res, w = S.call_trial(["a"], [S.schema.Any()], [], [], raw=(1, [["wc", tname, items]]))
            out = S.outcome_of(res)
            case = dict(stateSchema=mode, attributes=RC_ATTRS, children=items)
            rec = dict(case=case, mode=mode, items=items)
            ran = len(w.target.calls)
            if ran:
                rec["outcome"] = "invoked"
                state = seen[-1] if seen else {}
                rec["state"] = sorted([n, S.canon(v)] for n, v in state.items())
                if mode != "no-schema":
                    by = {n: (cs, opt) for n, cs, opt in RC_ATTRS}
                    why = [n for n, v in state.items() if (n in by and not S.py_satisfies(by[n][0], v)) or (n not in by and mode != "acceptUnknown")]
                    why += ["missing " + n for n, (cs, opt) in by.items() if not opt and n not in state]
                    if why:
                        ctx.fail("oracle/remotecopy-state-unchecked", "setCopyableState of a RemoteCopy whose stateSchema is %s(a=int, "
                                 "b=TupleOf(int,int), c=Optional(ListOf(int, maxLength=2))) received the state %r, which violates it (%s): "
                                 "RemoteCopyUnslicer.receiveClose does not apply the stateSchema; children %s"
                                 % (mode, rec["state"], ", ".join(why), str(items)[:300]), replay=case)
            elif not w.alive():
                rec["outcome"] = "dead"
                errs = w.recv_errors
                if errs and all(e.startswith("AssertionError") for e in errs) and mode == "ignoreUnknown":
                    ctx.fail("oracle/attrdict-ignore-unknown-drops-connection", "an attribute name the stateSchema does not declare, under "
                             "AttributeDictConstraint(ignoreUnknown=True), tripped `assert accept` in RemoteCopyUnslicer.receiveChild: the "
                             "whole connection was lost: %s" % (str(case)[:500],), replay=case)
                elif errs and all(e.startswith("UnicodeDecodeError") for e in errs):
                    ctx.fail("oracle/non-utf8-attribute-name-drops-connection", "an attribute name that is not valid UTF-8 raised "
                             "UnicodeDecodeError in RemoteCopyUnslicer.receiveChild (six.ensure_str): the whole connection was lost "
                             "instead of that one call failing with a Violation: %s" % (str(case)[:500],), replay=case)
                elif errs and all(e.startswith("BananaError") and ("duplicate attribute name" in e or "keys must be STRINGs" in e) for e in errs):
                    ctx.hist("protocol-error-on-malformed-leaf", "copyable: " + ("duplicate attribute name" if "duplicate" in errs[0] else "keys must be STRINGs"))
                else:
                    classify_dead(ctx, w, "remotecopy", case, "call")
            else:
                rec["outcome"] = "violation"
                if out[0] not in ("violation-local", "violation-remote"):
                    ctx.fail("oracle/not-a-violation", "the call was refused but the caller got %r instead of a Violation: %r" % (out, str(case)[:600]), replay=case)
                if not w.probe():
                    ctx.fail("oracle/sibling-affected", "after a refused call the connection no longer serves other calls: %r" % (case,), replay=case)
            if expect and rec["outcome"] != expect:
                ctx.fail("oracle/regression-" + witness, "corpus witness %s: expected %s, got %s" % (witness, expect, rec["outcome"]), replay=case)
            ctx.hist("remotecopy_outcome", "%s/%s" % (mode, rec["outcome"]))
            ctx.case(["remotecopy", mode, items], nontrivial=True)
            recs.append(rec)
    return recs


def call_cases(ctx, S, E):
    rng = ctx.rng
    recs = []
    S.family()
    for p in sorted(glob.glob(os.path.join(common.VERIF, "corpus", "C02", "call-*.json"))):
        w = json.load(open(p))
        raw = (w["raw"][0], w["raw"][1]) if "raw" in w else None
        inh = w.get("inherit")
        r = guarded(ctx, run_call, S, E, "corpus:" + os.path.basename(p), w.get("family", "corpus"),
                    effective_argspec(inh) if inh else [tuple(x) for x in w["argspec"]],
                    w.get("pos", []), w.get("kws", []), w.get("vocab", 0), w.get("direct"), w.get("per_instance"), raw, w.get("flags"), inh)
        if r and w.get("expect") and r["outcome"] != w["expect"]:
            ctx.fail("oracle/regression-" + os.path.basename(p)[:-5], "corpus witness %s: expected %s, got %s" % (p, w["expect"], r["outcome"]), replay=w)
        recs.append(r)
    # two targets of ONE python class whose instances declare different RemoteInterfaces with a method of the same name:
    # each call is governed by the schema of the instance it addresses, whatever was called before (in this process)
    five = ["wi", "INT", 5, 5]
    big = ["wi", "LONGINT", 5, 2 ** 39]
    for grp, tag, cs, ws in [("f1", "per-instance-int", ["py", "int"], five), ("f1", "per-instance-bytes", ["bytes", None, 0], five),
                             ("f2", "per-instance-listint", ["list", ["py", "int"], None, 0], ["wo", "list", [five]]),
                             ("f2", "per-instance-listbytes", ["list", ["py", "bytes"], None, 0], ["wo", "list", [five]]),
                             ("f3", "per-instance-int1024", ["py", "int"], big), ("f3", "per-instance-int32", ["int", -1], big),
                             ("f4", "per-instance-any", ["any"], ["wo", "list", [five]]), ("f4", "per-instance-none", ["none"], ["wo", "list", [five]])]:
        recs.append(guarded(ctx, run_call, S, E, tag, "per-instance", [("a", cs, False)], [ws], [], 0, False, grp))
    for tag, argspec, pos, kws in FIXED_CALLS:
        recs.append(guarded(ctx, run_call, S, E, tag, "fixed", argspec, pos, kws))
    guarded(ctx, lambda ctx_, S_, E_: method_name_cases(ctx_, S_, E_), S, E)
    for inh, pos, kws in inherit_cases(S):
        recs.append(guarded(ctx, run_call, S, E, "inherit:" + inh["tag"], "inherited-interface", effective_argspec(inh), pos, kws,
                            0, None, None, None, None, inh))
    for argspec, pos, kws in binding_cases(S):
        recs.append(guarded(ctx, run_call, S, E, "binding", "binding", argspec, pos, kws, 0, None, False))
    for argspec, count, items in framing_cases(S):
        recs.append(guarded(ctx, run_call, S, E, "framing", "framing", argspec, [], [], 1, None, None, (count, items)))
    for flag, argspec, count, items in flag_cases(S):
        recs.append(guarded(ctx, run_call, S, E, "unknown-flag", "unknown-flag", argspec, [], [], 0, True, None, (count, items), flag))
    recs += open_ref_sweep(ctx, S, E, run_call, True)
    for elem in PEND_ELEMS:
        cs, ws = pend_case(S, rng, elem, "list")
        recs.append(guarded(ctx, run_call, S, E, "pend-sweep", "pend", [("a", cs, False)], [ws], []))
    for i, (argspec, pos, kws) in enumerate(ref_shape_calls(S, full=bool(ctx.n(0, 1)))):
        recs.append(guarded(ctx, run_call, S, E, "ref-shape", "ref-shape", argspec, pos, kws, 0, i % 3 == 0, False))
    recs += remote_sweep(ctx, S, E)
    import random
    irng = random.Random(977 * ctx.seed + 2)          # its own stream: which generated calls address a derived interface
    for i in range(ctx.n(330, 6000)):
        nargs = rng.choice([1, 1, 2, 2, 3])
        argspec = []
        for j in range(nargs):
            cs = S.gen_cs(rng, rng.choice([1, 2, 2]), opener_choice=False)
            argspec.append((NAMES[j], cs, j > 0 and rng.random() < 0.3))
        vals = [S.canon_vs((S.gen_value(cs, rng))) for _, cs, _ in argspec]
        npos = rng.randint(0, nargs)
        family = rng.choice(["none", "value", "value", "value", "wire", "wire", "missing", "extra", "duplicate", "unknown", "ref",
                             "pend"])
        j = rng.randrange(nargs)
        if family == "pend":
            cs, ws = pend_case(S, rng)
            recs.append(guarded(ctx, run_call, S, E, "gen", "pend", [("a", cs, False)], [ws], []))
            continue
        if family == "value":
            for _ in range(5):
                try:
                    vals[j] = S.canon_vs((mutate_value(S, vals[j], rng)))
                    break
                except TypeError:          # a mutation made a set element / dict key unhashable: try another
                    continue
        vocab = rng.choice([0, 1])
        wires = [S.slice_vs(v, S.vocab_words(1) if vocab else None) for v in vals]
        if family == "wire":
            wires[j], family = mutate_wire(S, wires[j], rng)
        pos = wires[:npos]
        kws = [[NAMES[k], wires[k]] for k in range(npos, nargs)]
        if family == "missing":
            if kws:
                kws.pop(rng.randrange(len(kws)))
            elif pos:
                pos.pop()
        elif family == "extra":
            pos = wires + [["wi", "INT", 1, 1]]
            kws = []
        elif family == "duplicate" and npos > 0:
            kws = kws + [[NAMES[rng.randrange(npos)], ["wi", "INT", 1, 1]]]
        elif family == "unknown":
            kws = kws + [["z", ["wi", "INT", 1, 1]]]
        elif family == "ref" and nargs >= 2 and vals[0][0] in ("l", "d", "s", "T"):
            # (not "fs": no sender ever references a frozenset -- FrozenSetSlicer.trackReferences is False -- and the
            # receiver's table holds the TUPLE of its members for it, see the report)
            # argument k > 0 is sent as a back-reference to argument 0's object, whatever shape argument k must have
            pos = [wires[0], ["wr", vals[0], 0]] + wires[2:npos if npos > 2 else 2]
            kws = [[NAMES[k], wires[k]] for k in range(max(npos, 2), nargs)]
        kws.sort(key=lambda x: x[0])
        if family != "ref" and rng.random() < 0.15:
            # the same children under a count token that is off by one / zero / larger than the method has arguments
            n0, items = S.flat_items(pos, [(n, x) for n, x in kws])
            count = rng.choice([n0 + 1, max(0, n0 - 1), 0, nargs + 1, n0 + 2])
            recs.append(guarded(ctx, run_call, S, E, "gen", "count", argspec, [], [], vocab, None, None, (count, items)))
            continue
        # one in eight of them is addressed to a target whose RemoteInterface is part of a chain in which another declaration
        # of the same method stands above or below the one in force
        inh = wrap_in_chain(S, argspec, irng) if irng.random() < 0.12 else None
        recs.append(guarded(ctx, run_call, S, E, "gen", family, argspec, pos, kws, vocab, None, None, None, None, inh))
    # bodies / reference names / URLs that are not UTF-8 (fixed sweeps; they draw nothing from the random stream)
    for i, (argspec, pos, kws) in enumerate(nontext_value_cases(S)):
        recs.append(guarded(ctx, run_call, S, E, "nontext-body", "nontext-body", argspec, pos, kws, i % 2, i % 3 == 0, False))
    for i, (fam, argspec, pos) in enumerate(nontext_reference_cases(S)):
        recs.append(guarded(ctx, run_call, S, E, fam, fam, argspec, pos, [], 0, i % 2 == 0, False))
    guarded(ctx, lambda ctx_, S_, E_: their_reference_cases(ctx_, S_, E_), S, E)
    return [r for r in recs if r]


# --------------------------------------------------------------------------------------------------------------- answers
FIXED_ANSWERS = [
    ("d6-short-tuple", ["tuple", [["py", "int"], ["py", "int"]]], ["wo", "tuple", [["wi", "INT", 7, 7]]]),
    ("d6-long-text", ["text", 3, 0], ["wo", "unicode", [["ws", False, 7, [116, 111, 111, 108, 111, 110, 103]]]]),
    ("d6-forged-int", ["int", -1], ["wi", "INT", 2 ** 40, 2 ** 40]),
    ("d6-empty-bool", ["py", "bool"], ["wo", "boolean", []]),
    ("text-body-over-6x", ["text", 1, 0], ["wo", "unicode", [["ws", False, 7, [97] * 7]]]),
    ("d6-int-token-over-maxbytes", ["int", 4], ["wi", "INT", 2 ** 40, 2 ** 40]),
    ("d6-none-under-choice-of-list", ["choice", [["list", ["any"], None, 0]]], ["wo", "none", []]),
    ("d6-frozenset-under-mutable-set", ["set", ["int", None], None, True], ["wo", "immutable-set", []]),
    ("d6-empty-list-negative-maxlength", ["list", ["int", None], -1, 0], ["wo", "list", []]),
    ("d6-empty-list-minlength", ["list", ["int", None], None, 1], ["wo", "list", []]),
    ("bounded-dict-ok", ["dict", ["bytes", None, 0], ["list", ["set", ["int", None], 1, None], 2, 0], 1],
     ["wo", "dict", [["ws", False, 1, [107]], ["wo", "list", [["wo", "set", [["wi", "INT", 5, 5]]], ["wo", "immutable-set", []]]]]]),
    ("bounded-dict-third-member", ["dict", ["bytes", None, 0], ["list", ["set", ["int", None], 1, None], 2, 0], 1],
     ["wo", "dict", [["ws", False, 1, [107]], ["wo", "list", [["wo", "set", []], ["wo", "set", []], ["wo", "set", []]]]]]),
    ("ok-tuple", ["tuple", [["py", "int"], ["py", "int"]]], ["wo", "tuple", [["wi", "INT", 7, 7], ["wi", "INT", 8, 8]]]),
    ("wrong-type", ["py", "int"], ["ws", False, 1, [65]]),
]


def choice_container_answers(S):
    """result constraints that are (or contain) a ChoiceOf whose alternatives are CONTAINERS -- two of the same kind, two
    of different kinds, a container next to Any / a leaf -- with conforming answers and answers that conform to none of
    the alternatives.  On the current tree every container under such a ChoiceOf hits the child Unslicer's setConstraint
    assertion (C12's finding D7a: connection lost, conforming or not); whatever a change makes of that, a value that
    satisfies no alternative must not reach the callback.  -> [(cs, ws)]"""
    i1, s1 = ["wi", "INT", 1, 1], ["ws", False, 1, [65]]
    text = S.slice_vs(["t", [97]])
    L = lambda c: ["list", c, None, 0]
    D = lambda c: ["dict", ["py", "bytes"], c, None]
    St = lambda c: ["set", c, None, None]
    T = lambda *cs: ["tuple", list(cs)]
    pairs = [
        (["choice", [L(["py", "int"]), L(["py", "bytes"])]], [["wo", "list", [i1, s1]], ["wo", "list", [text]], ["wo", "list", [i1, i1]], ["wo", "list", [["wo", "list", []]]]]),
        (["choice", [D(["py", "int"]), D(["py", "bytes"])]], [["wo", "dict", [s1, i1, ["ws", False, 1, [66]], s1]], ["wo", "dict", [s1, text]], ["wo", "dict", [s1, i1]]]),
        (["choice", [St(["py", "int"]), St(["py", "bytes"])]], [["wo", "set", [["wo", "tuple", [i1]]]], ["wo", "set", [i1, s1]], ["wo", "set", [i1]], ["wo", "immutable-set", [text]]]),
        (["choice", [T(["py", "int"], ["py", "int"]), T(["py", "bytes"], ["py", "bytes"])]], [["wo", "tuple", [i1, s1]], ["wo", "tuple", [i1]], ["wo", "tuple", [i1, i1]], ["wo", "tuple", [i1, i1, i1]]]),
        (["choice", [L(["py", "int"]), T(["py", "int"])]], [["wo", "list", [s1]], ["wo", "tuple", [s1]], ["wo", "tuple", [i1, i1]], ["wo", "list", [i1]]]),
        (["choice", [L(["py", "int"]), ["py", "int"]]], [["wo", "list", [s1]], ["wo", "list", [i1]], i1, s1]),
        (["choice", [L(["py", "int"]), ["none"]]], [["wo", "list", [text]], ["wo", "none", []], ["wo", "list", [i1]]]),
        (["choice", [["py", "str"], ["none"]]], [text, ["wo", "none", []], ["wo", "unicode", [["ws", False, 1, [65]], ["ws", False, 1, [65]]]], i1]),
        (["choice", [["text", 1, 0], ["text", 2, 2]]], [S.slice_vs(["t", [97, 98, 99]]), S.slice_vs(["t", [97]])]),
        (["choice", [["bool", True], ["none"]]], [S.slice_vs(["B", False]), S.slice_vs(["B", True])]),
    ]
    out = []
    for cs, wss in pairs:
        for ws in wss:
            out.append((cs, ws))
            out.append((["tuple", [cs, ["py", "int"]]], ["wo", "tuple", [ws, i1]]))
            out.append((["list", cs, None, 0], ["wo", "list", [ws]]))
            out.append((["dict", ["py", "bytes"], cs, None], ["wo", "dict", [s1, ws]]))
    return out


VIAS = ["interface", "kwarg", "kwarg-over", "method"]


def run_answer(ctx, S, E, tag, family, cs, ws, vocab=0, via=None):
    if via is None:
        via = ctx.rng.choice(VIAS)
    ctx.hist("result_constraint_via", via)
    res, w = S.answer_trial(cs, ws, vocab=vocab, via=via)
    out = S.outcome_of(res)
    case = dict(tag=tag, family=family, result_constraint=cs, wire=ws, via=via)
    rec = dict(case=case, ctr=S.to_ctr(w.declared))
    if out[0] == "ok":
        rec["outcome"] = "callback"
        rec["value"] = S.canon(out[1])
        # THE PROPERTY: the value handed to the callback satisfies the result constraint in force
        conforms = S.real_accepts(w.declared, out[1], True) and S.py_satisfies(cs, out[1])
        if not conforms and (has_pend(ws) or has_ref(ws)):
            # not D6: the stream is conforming except for ONE back-reference, and ReferenceUnslicer's checkObject is the
            # check that exists for exactly that
            ctx.fail("oracle/result-reference-unchecked", "an answer that puts a back-reference to its own still-open tuple "
                     "(or to an earlier, closed member) into a slot of another declared shape was delivered: the callback received %r which violates the result "
                     "constraint %r (answer stream %s)" % (rec["value"], cs, str(ws)[:400]), replay=case)
        elif not conforms and S.py_recv(cs, ws) != "ok":
            # not D6 either: the documented TOKEN-level enforcement of this result constraint refuses this stream
            # (token type / body size / fullness / opentype), so the value should never have been assembled
            ctx.fail("oracle/result-token-check-missed", "an answer stream that the token-level checks of the result constraint "
                     "%r must refuse (%s) was delivered: the callback received %r (answer stream %s)"
                     % (cs, S.py_recv(cs, ws), rec["value"], str(ws)[:400]), replay=case)
        elif not conforms:
            ctx.fail("oracle/result-unchecked", "the callRemote callback received %r which violates the result constraint %r "
                     "(hand-built answer %s)" % (rec["value"], cs, str(ws)[:300]), replay=case)
    elif not w.alive():
        rec["outcome"] = "dead-dupkey" if any("duplicate key" in e for e in w.recv_errors) else "dead"
        if w.recv_errors and all(e.startswith("UnicodeDecodeError") for e in w.recv_errors):
            decode_error_failure(ctx, w.recv_errors, [ws], case, "answer")
        elif family == "reference-url" and w.recv_errors and all(any(m in e for m in URL_CHECK_ERRORS) for e in w.recv_errors):
            ctx.hist("reference_url_check", w.recv_errors[0][:50])
            note_url_not_a_furl(ctx, w.recv_errors, case)
        else:
            classify_dead(ctx, w, family, case, "answer")
    elif out[0] == "pending":
        rec["outcome"] = "pending"
        ctx.fail("oracle/answer-lost", "neither callback nor errback after the answer sequence: %r" % (case,), replay=case)
    else:
        rec["outcome"] = "errback"
    ctx.hist("answer_outcome", rec["outcome"])
    ctx.hist("answer_family", family)
    ctx.case(["answer", cs, ws], nontrivial=True)
    ctx.sample(dict(kind="answer", family=family, cs=cs, wire=str(ws)[:150], outcome=rec["outcome"]), cap=10)
    return rec


HOSTILE = [["wi", "INT", 5, 5], ["wi", "INT", 2 ** 40, 2 ** 40], ["wi", "NEG", 7, -7], ["wi", "LONGINT", 5, 2 ** 39], ["wi", "LONGINT", 8, 2 ** 63],
           ["wi", "LONGINT", 9, 2 ** 70], ["wi", "LONGNEG", 5, -(2 ** 39)], ["wf", 4609434218613702656], ["ws", False, 1, [65]],
           ["ws", False, 30, [65] * 30], ["ws", True, 21, list(b"class")], ["wo", "none", []], ["wo", "list", []],
           ["wo", "unicode", [["ws", False, 1, [65]]]], ["wo", "boolean", [["wi", "INT", 1, 1]]], ["wo", "tuple", []],
           ["wo", "dict", []], ["wo", "set", []], ["wo", "immutable-set", []]]


def hostile_sweep(ctx, S, E):
    """every leaf constraint kind (bare, and as the item constraint of a list) as RESULT constraint against every token kind,
    run after many other constraints were constructed in this process (state shared between constraint instances -- a
    class-level taster, a cached adapter -- shows up here): whatever reaches the callback must satisfy the constraint,
    and what the token-level checks must refuse must not arrive at all"""
    from foolscap import schema
    schema.NumberConstraint(); schema.IntegerConstraint(maxBytes=1024); schema.IntegerConstraint(maxBytes=None)
    schema.ByteStringConstraint(maxLength=2000); schema.UnicodeConstraint(maxLength=2000)
    recs = []
    leaves = [l for l in S.LEAVES if l != ["any"]] + ZERO_LEAVES      # a size parameter of 0 is a limit, not "none"
    for leaf in leaves:
        for i, ws in enumerate(HOSTILE):         # the four public ways of putting a result constraint in force, in turn
            recs.append(guarded(ctx, run_answer, S, E, "hostile", "hostile", leaf, ws, 1, VIAS[i % 4]))
        for i, ws in enumerate(HOSTILE[:9]):
            recs.append(guarded(ctx, run_answer, S, E, "hostile", "hostile", ["list", leaf, None, 0], ["wo", "list", [ws]], 1,
                                VIAS[(i + 1) % 4]))
    # the shorthands None / int / str ... given DIRECTLY as _resultConstraint (None means Nothing(): "returns None only")
    for short in ("none", "int", "str", "bytes", "bool", "float"):
        for ws in HOSTILE:
            recs.append(guarded(ctx, run_answer, S, E, "hostile-shorthand", "hostile", ["py", short], ws, 1, "kwarg"))
    return [r for r in recs if r]


def answer_cases(ctx, S, E):
    rng = ctx.rng
    recs = []
    for p in sorted(glob.glob(os.path.join(common.VERIF, "corpus", "C02", "answer-*.json"))):
        w = json.load(open(p))
        r = guarded(ctx, run_answer, S, E, "corpus:" + os.path.basename(p), w.get("family", "corpus"), w["cs"], w["ws"], 0,
                    w.get("via", "interface"))
        if r and w.get("expect") and r["outcome"] != w["expect"]:
            ctx.fail("oracle/regression-" + os.path.basename(p)[:-5], "corpus witness %s: expected %s, got %s" % (p, w["expect"], r["outcome"]), replay=w)
        recs.append(r)
    for tag, cs, ws in FIXED_ANSWERS:
        recs.append(guarded(ctx, run_answer, S, E, tag, "fixed", cs, ws))
    recs += hostile_sweep(ctx, S, E)
    for i, (cs, ws) in enumerate(choice_container_answers(S)):
        recs.append(guarded(ctx, run_answer, S, E, "choice-container", "choice-container", cs, ws, 0, VIAS[i % 4]))
    for i, (cs, ws) in enumerate(zero_size_answers(S)):
        recs.append(guarded(ctx, run_answer, S, E, "zero-size", "zero-size", cs, ws, 0, VIAS[i % 4]))
    for i, (cs, ws) in enumerate(ref_shape_answers(S)):
        recs.append(guarded(ctx, run_answer, S, E, "ref-shape", "ref-shape", cs, ws, 0, VIAS[i % 4]))
    recs += open_ref_sweep(ctx, S, E, run_answer, False)
    for elem in PEND_ELEMS:                          # every OPEN-accepting constraint kind (and a few that refuse OPEN)
        for shape in ("list", "dict", "list2", "tuple-list", "tuple-list-inner"):
            cs, ws = pend_case(S, rng, elem, shape)
            recs.append(guarded(ctx, run_answer, S, E, "pend-sweep", "pend", cs, ws))
    for i in range(ctx.n(230, 4000)):
        cs = S.gen_cs(rng, rng.choice([0, 1, 2, 2]), opener_choice=False)
        v = S.canon_vs((S.gen_value(cs, rng)))
        family = rng.choice(["none", "value", "value", "wire", "wire", "pend"])
        if family == "pend":
            cs, ws = pend_case(S, rng)
            recs.append(guarded(ctx, run_answer, S, E, "gen", "pend", cs, ws))
            continue
        if family == "value":
            for _ in range(5):
                try:
                    v = S.canon_vs((mutate_value(S, v, rng)))
                    break
                except TypeError:
                    continue
        vocab = rng.choice([0, 1])
        ws = S.slice_vs(v, S.vocab_words(1) if vocab else None)
        if family == "wire":
            ws, family = mutate_wire(S, ws, rng)
        recs.append(guarded(ctx, run_answer, S, E, "gen", family, cs, ws, vocab))
    for i, (cs, ws) in enumerate(nontext_value_answers(S)):
        recs.append(guarded(ctx, run_answer, S, E, "nontext-body", "nontext-body", cs, ws, i % 2, VIAS[i % 4]))
    bad = ["wo", "my-reference", [["wi", "INT", 33, 33], ["ws", False, 2, [168, 97]]]]
    for i, (cs, ws) in enumerate([(["any"], bad), (["remote", None], bad), (["list", ["any"], None, 0], ["wo", "list", [bad]])]):
        recs.append(guarded(ctx, run_answer, S, E, "reference-name", "reference-name", cs, ws, 0, VIAS[i % 4]))
    return [r for r in recs if r]


# --------------------------------------------------------------------------------------------------------------- model
def correspond_rc(ctx, S, rcs):
    """RemoteCopy state: Schema.rc_run on the children against what the real RemoteCopyUnslicer did"""
    if not rcs:
        return
    from foolscap.constraint import IConstraint
    keys = coq_list(["{| a_name := %d; a_ctr := %s; a_opt := %s |}" % (nm(n), S.to_ctr(IConstraint(S.build(cs))), "true" if opt else "false")
                     for n, cs, opt in RC_ATTRS])
    sch = {"plain": "(Some {| as_keys := KEYS; as_ignore := false; as_accept := false |})",
           "ignoreUnknown": "(Some {| as_keys := KEYS; as_ignore := true; as_accept := false |})",
           "acceptUnknown": "(Some {| as_keys := KEYS; as_ignore := false; as_accept := true |})", "no-schema": "None"}
    rows = ["(%s, %s, %s)" % (sch[r["mode"]], coq_list([S.to_wobj(x) for x in r["items"]]),
                              coq_list(["(%d, %s)" % (nm(n), S.to_obj(v)) for n, v in r.get("state", [])])) for r in rcs]
    body = EQB + "Definition KEYS : list argspec := " + keys + ".\nDefinition cases : list (option attrschema * list wobj * list (Z * obj)) := " + \
        coq_list(rows) + ".\n" + """
Definition st_same (a b : list (Z * obj)) : bool :=
  (List.length a =? List.length b)%nat && forallb (fun x => existsb (fun y => Z.eqb (fst x) (fst y) && obj_eqb (snd x) (snd y)) b) a.
Eval vm_compute in map (fun x => let '(s, items, es) := x in
  match rc_run s [] items with ADeliver d => if st_same es d then 1 else 4 | AViol => 2 | AAbort => 3 end) cases.
"""
    try:
        (vals,) = ctx.coq_eval("C02_remotecopy", body, requires=REQ)
    except common.CoqEvalError as e:
        ctx.fail("correspondence/broken", "the model could not be evaluated: " + str(e)[-1500:], replay=None, has_input=False)
        return
    CODE = {"invoked": 1, "violation": 2, "dead": 3}
    for r, m in zip(rcs, vals):
        ctx.traces += 1
        if m != CODE[r["outcome"]]:
            ctx.fail("correspondence/remotecopy", "model and implementation disagree on %s: model code %r (1 delivered with the same state, "
                     "2 violation, 3 connection lost, 4 delivered with another state), implementation %s %r"
                     % (str(r["case"])[:1200], m, r["outcome"], r.get("state")), replay=dict(case=r["case"], model=m), has_input=False)
    ctx.extra["remotecopy_cases"] = len(rcs)


def correspond(ctx, S, calls, answers):
    nbad = 0

    def bad(kind, what, replay):
        nonlocal nbad
        nbad += 1
        ctx.fail("correspondence/" + kind, what, replay=replay, has_input=False)

    CODE = {"invoked": 1, "violation": 2, "dead": 3, "failed": 5}
    # duplicate dict keys (a protocol error) are not modelled; a method that no interface of the target's resolution order
    # declares has no schema to run the arguments machine under (the call-sequence correspondence covers it)
    calls = [r for r in calls if r["outcome"] in CODE and r["ms"] is not None]

    def count_term(c):
        return [] if c is None else ["(WInt 129 %d %d)" % (c, c)] if isinstance(c, int) else [S.to_wobj(c)]
    for lo in range(0, len(calls), 200):
        chunk = calls[lo:lo + 200]
        rows = []
        for r in chunk:
            c = r["case"]
            items = coq_list(count_term(c["count"]) + [S.to_wobj(x) for x in c["items"]])
            ea = coq_list([S.to_obj(x) for x in r.get("args", [])])
            ek = coq_list(["(%d, %s)" % (nm(n), S.to_obj(x)) for n, x in r.get("kwargs", [])])
            rows.append("(%s, %s, %s, %s)" % (r["ms"], items, ea, ek))
        body = EQB + "Definition cases : list (mschema * list wobj * list obj * list (Z * obj)) := " + \
            coq_list(rows) + ".\n" + """
Definition kw_same (a b : list (Z * obj)) : bool :=
  (List.length a =? List.length b)%nat &&
  forallb (fun x => existsb (fun y => Z.eqb (fst x) (fst y) && obj_eqb (snd x) (snd y)) b) a.
Eval vm_compute in map (fun x => let '(ms, items, ea, ek) := x in
  match recv_arguments ms items with
  | CInvoke a' kw' => if list_eqbw obj_eqb ea a' && kw_same ek kw' then 1 else 4
  | CViol => 2 | CAbort => 3 | CFail => 5 end) cases.
"""
        try:
            (vals,) = ctx.coq_eval("C02_calls_%d" % (lo // 200), body, requires=REQ)
        except common.CoqEvalError as e:
            bad("broken", "the model could not be evaluated: " + str(e)[-1500:], None)
            return
        for r, m in zip(chunk, vals):
            ctx.traces += 1
            if m != CODE[r["outcome"]]:
                bad("call", "model and implementation disagree on %s: model code %r (1 invoked with the same arguments, 2 violation, "
                    "3 connection lost, 4 invoked with other arguments, 5 failed with another exception), implementation %s %r %r"
                    % (str(r["case"])[:1500], m, r["outcome"], r.get("args"), r.get("kwargs")), dict(case=r["case"], model=m, impl=r["outcome"]))
    # is-this-text: Schema.utf8_valid against Python's strict decoder, on the boundary byte strings and random ones
    samples = NONTEXT_NAMES + TEXT_NAMES + [[ctx.rng.choice([97, 128, 191, 192, 194, 223, 224, 237, 239, 240, 244, 245, 159, 160, 143, 144])
                                             for _ in range(ctx.rng.randint(1, 5))] for _ in range(ctx.n(150, 2000))]
    # ... plus honest encodings of random text (so that the accepted side is well covered), and what an accepted body decodes to
    samples += [list("".join(chr(ctx.rng.choice([97, 127, 128, 233, 2047, 2048, 8364, 0xD7FF, 0xE000, 0xFFFF, 0x10000, 0x1F600, 0x10FFFF]))
                             for _ in range(ctx.rng.randint(0, 4))).encode("utf-8")) for _ in range(ctx.n(60, 600))]
    body = ("Local Open Scope Z_scope.\nDefinition samples := %s.\nEval vm_compute in map utf8_valid samples.\n"
            "Eval vm_compute in map (fun b => if utf8_valid b then utf8_decode b else []) samples.\n" % coq_list([S.coq_zlist(b) for b in samples]))
    try:
        vals, decs = ctx.coq_eval("C02_utf8", body, requires=REQ)
    except common.CoqEvalError as e:
        bad("broken", "the model could not be evaluated: " + str(e)[-1500:], None)
        return
    for b, m in zip(samples, vals):
        ctx.traces += 1
        try:
            bytes(b).decode("utf-8")
            real = True
        except UnicodeDecodeError:
            real = False
        if m != real:
            bad("utf8_valid", "model utf8_valid %r = %r, bytes.decode('utf-8') %s" % (b, m, "succeeds" if real else "raises"), dict(bytes=b))
    for b, d in zip(samples, decs):
        try:
            want = [ord(ch) for ch in bytes(b).decode("utf-8")]
        except UnicodeDecodeError:
            continue
        ctx.traces += 1
        if list(d) != want:
            bad("utf8_decode", "model utf8_decode %r = %r, bytes.decode('utf-8') gives %r" % (b, d, want), dict(bytes=b))
    ACODE = {"callback": 1, "errback": 2, "dead": 3}
    for lo in range(0, len(answers), 300):
        chunk = [r for r in answers[lo:lo + 300] if r["outcome"] in ACODE]
        rows = ["(%s, %s, %s)" % (r["ctr"], S.to_wobj(r["case"]["wire"]), S.to_obj(r["value"]) if "value" in r else "ONone")
                for r in chunk]
        body = EQB + "Definition cases : list (ctr * wobj * obj) := " + coq_list(rows) + ".\n" + """
Eval vm_compute in map (fun x => let '(c, w, ev) := x in
   match recv_answer (Some c) w with Callback v => if obj_eqb v ev then 1 else 4 | Errback => 2 | ConnLost => 3 end) cases.
"""
        try:
            (vals,) = ctx.coq_eval("C02_answers_%d" % (lo // 300), body, requires=REQ)
        except common.CoqEvalError as e:
            bad("broken", "the model could not be evaluated: " + str(e)[-1500:], None)
            return
        for r, m in zip(chunk, vals):
            ctx.traces += 1
            if m != ACODE[r["outcome"]]:
                bad("answer", "model and implementation disagree on %s: model code %r (1 callback with the same value, 2 errback, "
                    "3 connection lost, 4 callback with another value), implementation %s %r"
                    % (str(r["case"])[:1500], m, r["outcome"], r.get("value")), dict(case=r["case"], model=m, impl=r["outcome"]))
    ctx.extra["correspondence_cases"] = len(calls) + len(answers)
    ctx.extra["correspondence_disagreements"] = nbad
