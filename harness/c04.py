"""C04 -- calls execute in the order issued, each at most once."""
import json, os
from harness import common
from harness.common import coq_list, coq_bool

CORPUS = os.path.join(common.VERIF, "corpus", "C04")
REQ = ["Verif.gen.OrderGen", "Verif.lib.Order"]
FATES = {0: "FPlain", 1: "FGift %d", 2: "FRejectEarly", 3: "FRejectLate"}
OK_KINDS = ("plain", "slow", "raise", "gift")     # kinds that must be entered, exactly once
# what the body of an entered method may raise (kind "raise"): the keys of c04_impl.BODY_ERRORS (compared in run())
BODY_ERROR_NAMES = ("AssertionError", "AttributeError", "IndexError", "KeyError", "NotImplementedError", "RemoteException", "RuntimeError",
                    "StopIteration", "TypeError", "TypeError-call", "TypeError-kw", "ValueError", "Violation", "ZeroDivisionError")


# ------------------------------------------------------------------ scenario generators
def rand_spec(rng, depth=0, allow_gift=True):
    kinds = [("plain", 40), ("slow", 8), ("raise", 8), ("gift", 14 if allow_gift else 0), ("early", 10), ("abort", 7), ("late", 9), ("local", 5)]
    tot = sum(w for _, w in kinds)
    x = rng.randrange(tot)
    for k, w in kinds:
        if x < w:
            kind = k
            break
        x -= w
    spec = dict(kind=kind)
    if kind == "raise":
        spec.update(exc=rng.choice(BODY_ERROR_NAMES), how=rng.choice(("raise", "raise", "fail")))
    r = rng.random()
    if kind != "local" and r < 0.4:
        spec["stalls"] = 1 if r < 0.22 else (2 if r < 0.33 else 3)
    if rng.random() < 0.15:
        spec["only"] = True
    if kind == "gift" and "stalls" not in spec and rng.random() < 0.4:
        spec["gifts"] = 2                                # two third-party references in one call
    if kind != "local" and rng.random() < 0.25:
        spec["pos"] = rng.choice(("all", "some"))        # arguments passed positionally (all four / all but the last)
    if kind == "plain" and depth < 2 and rng.random() < 0.2:
        # issued from inside the remote_ method, in the opposite direction (gifts stay in direction 0)
        spec["reenter"] = [rand_spec(rng, depth + 1, allow_gift=False) for _ in range(rng.choice((1, 1, 2)))]
    if kind in CALLABLE_KINDS and "pos" not in spec and rng.random() < 0.15:
        spec["target"] = rng.choice(TARGETS)             # addressed to a bare callable (bound method / function) of the receiver
    if kind != "local" and depth < 2 and rng.random() < 0.12:
        # further calls issued from inside the send-side serialization of this call's argument
        spec["inner"] = dict(at=rng.choice(HOOKS), calls=[rand_inner(rng, depth + 1) for _ in range(rng.choice((1, 1, 2)))])
        spec.pop("gifts", None)
    return spec


CALLABLE_KINDS = ("plain", "slow", "raise", "gift", "abort")     # kinds that do not depend on the receiver's schema (a callable has none)
TARGETS = ("meth", "func", "bare")                      # bound method, function, schema-less second Referenceable
HOOKS = ("copy", "start", "mid", "resume", "end")       # c04_impl.HOOK_POSITIONS


def rand_inner(rng, depth):
    sp = rand_spec(rng, depth, allow_gift=False)
    if rng.random() < 0.15:
        sp["rev"] = True                                 # this one goes out on the other Broker (opposite direction)
    return sp


def rand_chunks(rng):
    if rng.random() < 0.2:
        return None
    return [rng.choice((1, 1, 2, 3, 5, 8, 13, 40, 1000)) for _ in range(rng.randint(1, 4))]


def rand_noise(rng, gifts=False):
    x = rng.random()
    if x < 0.3:
        return ["noise", "nop"]
    if x < 0.6:
        return ["noise", "raise"]
    d = 0 if rng.random() < 0.8 else 1
    return ["noise", ["issue", d, rand_spec(rng, depth=1, allow_gift=(gifts and d == 0))]]


def rand_script(rng, n, gifts=True, noise=0.0, loss=False):
    sc = []
    for _ in range(n):
        if noise and rng.random() < noise:
            sc.append(rand_noise(rng, gifts))
            continue
        x = rng.random()
        if x < 0.36:
            d = 0 if rng.random() < 0.8 else 1
            sc.append(["issue", d, rand_spec(rng, allow_gift=(gifts and d == 0))])
        elif x < 0.47:
            sc.append(["release", 0 if rng.random() < 0.8 else 1])
        elif x < 0.50 and gifts:
            sc.append(rng.choice((["deliver_part", 0], ["gift_early", 0, rng.randrange(3), rng.random() < 0.7])))
        elif x < 0.67:
            sc.append(["deliver", 0, rand_chunks(rng)])
        elif x < 0.75:
            sc.append(["deliver", 1, rand_chunks(rng)])
        elif x < 0.82:
            sc.append(["gift", 0, rng.randrange(4), rng.random() < 0.75])
        elif x < 0.86:
            sc.append(["finish", 0 if rng.random() < 0.8 else 1, rng.randrange(3), rng.random() < 0.5])
        else:
            sc.append(["turn"])
    if loss and n >= 4:
        sc.insert(rng.randint(n // 3, n - 1), ["lose", 0 if rng.random() < 0.8 else 1])
    return sc


def stall_burst(rng, k, stalls, chunks):
    """the D1 family: one call pauses mid-argument, k more are issued meanwhile, stalls released at random moments"""
    sc = [["issue", 0, dict(kind="plain", stalls=stalls)]]
    rest = [["issue", 0, dict(kind=rng.choice(("plain", "plain", "late", "early")), stalls=rng.choice((0, 0, 1)))]
            for _ in range(k)]
    rest += [["release", 0] for _ in range(stalls + 2)]
    rest += [["deliver", 0, chunks] for _ in range(rng.randint(0, 3))] + [["turn"] for _ in range(rng.randint(0, 2))]
    head, tail = rest[:k], rest[k:]
    rng.shuffle(tail)
    # keep at least two issues while stalled, then mix
    mix = head[2:] + tail
    rng.shuffle(mix)
    return sc + head[:2] + mix


def gift_block(rng, k, ok, chunks):
    """a call waiting for a third-party reference is followed by k calls; all are delivered before it resolves"""
    sc = [["issue", 0, dict(kind="gift", pos=rng.choice((None, "all", "some")))]]
    sc += [["issue", 0, dict(kind=rng.choice(("plain", "plain", "gift", "late")), pos=rng.choice((None, None, "all")))] for _ in range(k)]
    sc += [["deliver", 0, chunks] for _ in range(k + 1)]
    sc += [["turn"], ["turn"]]
    sc += [["gift", 0, 0, ok], ["turn"], ["gift", 0, 0, True], ["turn"], ["turn"]]
    return sc


def multi_gift(rng, k, results, chunks):
    """a call with TWO third-party references waits at the head of the queue (or is still queued behind another waiting
    call); k calls follow; the references resolve / fail one by one in the order `results`, with turns in between"""
    sc = []
    if rng.random() < 0.5:
        sc += [["issue", 0, dict(kind="gift")]]
    sc += [["issue", 0, dict(kind="gift", gifts=2, pos=rng.choice((None, "all", "some")))]]
    sc += [["issue", 0, dict(kind=rng.choice(("plain", "plain", "gift", "late")), gifts=rng.choice((1, 2)))] for _ in range(k)]
    sc += [["deliver", 0, chunks] for _ in range(len(sc))]
    sc += [["turn"], ["turn"]]
    for ok in results:
        sc += [["gift", 0, rng.randrange(3), ok]] + [["turn"] for _ in range(rng.randint(0, 2))]
    return sc


def early_gift_family(rng, k, chunks, results):
    """third-party references that resolve / fail while their call is still being received: the call's bytes are moved up to
    the moment the receiver has asked its Tub for the reference, the reference resolves (results[0]), then the rest of the
    call arrives; with two references the second one (results[1], if given) resolves late.  Calls before and after."""
    two = len(results) > 1
    sc = [["issue", 0, dict(kind=rng.choice(("plain", "gift")))], ["deliver", 0, chunks]]
    sc += [["issue", 0, dict(kind="gift", gifts=2 if two else 1, pos=rng.choice((None, "all", "some")))]]
    sc += [["issue", 0, dict(kind=rng.choice(("plain", "plain", "late", "gift")), only=rng.random() < 0.2)] for _ in range(k)]
    sc += [["deliver_part", 0], ["gift_early", 0, 0, results[0]]]
    if rng.random() < 0.5:
        sc += [["turn"]]
    sc += [["deliver", 0, chunks] for _ in range(k + 1)] + [["turn"], ["turn"]]
    if two:
        sc += [["gift", 0, 0, results[1]], ["turn"]]
    sc += [["gift", 0, 0, True], ["turn"], ["gift", 0, 0, True], ["turn"], ["turn"]]
    return sc


def sender_loss_family(rng, k, chunks, when):
    """the SENDER of direction 0 loses the connection (= the receiver of direction 1 does): with calls completely written but
    not yet delivered, while it is paused in a streaming argument with calls queued behind (when='paused'), or idle.
    Afterwards stalls are released, bytes delivered, calls issued: only what was completely written can still arrive."""
    sc = [["issue", 0, dict(kind="plain")], ["issue", 0, dict(kind=rng.choice(("plain", "gift", "slow")))]]
    if when == "paused":
        sc += [["issue", 0, dict(kind="plain", stalls=rng.choice((1, 2)))]]
    sc += [["issue", 0, dict(kind=rng.choice(("plain", "late", "plain")), only=rng.random() < 0.3)] for _ in range(k)]
    sc += [["deliver", 0, chunks] for _ in range(rng.randint(0, 2))]
    sc += [["lose", 1]]
    tail = [["release", 0], ["release", 0], ["deliver", 0, chunks], ["deliver", 0, chunks], ["deliver", 0, chunks], ["turn"], ["turn"],
            ["issue", 0, dict(kind="plain")], ["gift", 0, 0, True], ["deliver", 0, chunks]]
    rng.shuffle(tail)
    return sc + tail + [["deliver", 0, None] for _ in range(k + 3)] + [["turn"], ["turn"]]


def loss_family(rng, k, chunks, when):
    """the receiver loses the connection while a call waits for its gift (when='waiting'), while calls are queued
    (when='queued'), or while the sender is paused in a streaming argument (when='paused'); afterwards gifts resolve,
    stalls are released, calls keep being issued and turns run: nothing may be entered any more"""
    sc = [["issue", 0, dict(kind="plain")], ["deliver", 0, chunks], ["turn"]]
    if when == "waiting":
        sc += [["issue", 0, dict(kind="gift", gifts=rng.choice((1, 2)))], ["deliver", 0, chunks], ["turn"], ["turn"]]
    elif when == "paused":
        sc += [["issue", 0, dict(kind="plain", stalls=1)]]
    sc += [["issue", 0, dict(kind=rng.choice(("plain", "plain", "gift", "late", "slow")))] for _ in range(k)]
    sc += [["deliver", 0, chunks] for _ in range(rng.randint(0, k))]
    if when == "queued" and rng.random() < 0.5:
        sc += [["turn"]]
    sc += [["lose", 0]]
    tail = [["gift", 0, 0, True], ["gift", 0, 1, rng.random() < 0.7], ["turn"], ["turn"], ["release", 0], ["deliver", 0, chunks],
            ["issue", 0, dict(kind="plain")], ["issue", 1, dict(kind="plain")], ["deliver", 1, chunks], ["turn"]]
    rng.shuffle(tail)
    return sc + tail


def clock_scripts():
    """fixed scripts in which virtual time passes at every stage of a gift stall: while the gift call waits at the head of
    the queue with later calls behind it, and again after it was resolved / failed.  Call delivery must not depend on time."""
    out = []
    for secs in (0.3, 30.0, 4000.0):
        for late_ok in (True, False):
            for n_gifts in (1, 2):
                sc = [["issue", 0, dict(kind="gift", gifts=n_gifts)], ["issue", 0, dict(kind="plain")], ["issue", 0, dict(kind="plain", only=True)],
                      ["deliver", 0, None], ["deliver", 0, None], ["deliver", 0, None], ["turn"], ["turn"],
                      ["advance", secs], ["turn"], ["turn"], ["issue", 0, dict(kind="plain")], ["deliver", 0, None], ["turn"],
                      ["gift", 0, 0, late_ok], ["turn"], ["advance", secs], ["gift", 0, 0, True], ["turn"], ["turn"]]
                out.append(sc)
    return out


def knob_values(default):
    if isinstance(default, bool):
        return [not default]
    if default is None:
        return [0.2, 0, 5.0, True]
    return [0, default * 2 + 1]


def failure_behind_gift(rng, variant, resolve, k, chunks):
    """a call has been popped by doNextCall and waits for its third-party reference; meanwhile a failure is reported for
    ANOTHER call -- variant 'reject': a later inbound call is refused by the receiver's schema while it is being
    deserialized (CallUnslicer.reportViolation -> Broker.callFailed); variant 'errback': a method entered earlier,
    which returned a Deferred, fails late (the delivery's own errback -> Broker.callFailed).  Neither may release the
    calls queued behind the waiting one.  resolve: 'late' (after the later calls arrived), 'fail', or 'never' (only
    the final quiescence resolves it)"""
    later = [["issue", 0, dict(kind=rng.choice(("plain", "plain", "slow", "late")), only=rng.random() < 0.2)] for _ in range(k)]
    sc = []
    if variant == "errback":
        sc += [["issue", 0, dict(kind="slow")], ["deliver", 0, chunks], ["turn"]]
    sc += [["issue", 0, dict(kind="gift")], ["deliver", 0, chunks], ["turn"], ["turn"]]      # popped, waiting
    if variant == "reject":
        bad = ["issue", 0, dict(kind="early", only=rng.random() < 0.3)]
        pos = rng.randint(0, len(later) - 1)
        later = later[:pos] + [bad] + later[pos:]
    sc += later
    sc += [["deliver", 0, chunks] for _ in later]
    if variant == "errback":
        sc += [["finish", 0, 0, False]]
    sc += [["turn"], ["turn"], ["turn"]]
    if resolve != "never":
        sc += [["gift", 0, 0, resolve != "fail"], ["turn"], ["turn"], ["turn"]]
    return sc


def mixed_styles(rng, bursts, chunks):
    """callRemote and callRemoteOnly mixed within one turn and across turns, from the top level, from inside one
    remote_ method and from one queued callable"""
    def spec():
        return dict(kind=rng.choice(("plain", "plain", "plain", "slow", "late")), only=rng.random() < 0.5,
                    stalls=rng.choice((0, 0, 0, 1)))
    sc = []
    for _ in range(bursts):
        n = rng.randint(2, 5)
        how = rng.random()
        if how < 0.6:
            sc += [["issue", 0, spec()] for _ in range(n)]
        elif how < 0.8:
            sc += [["issue", 1, dict(kind="plain", reenter=[spec() for _ in range(n)])]]
        else:
            sc += [["noise", ["issue", 0, spec()]] for _ in range(n)]
        tail = [["turn"] for _ in range(rng.randint(0, 2))] + [["deliver", rng.choice((0, 0, 1)), chunks] for _ in range(rng.randint(0, 3))] \
            + [["release", 0] for _ in range(rng.randint(0, 1))]
        rng.shuffle(tail)
        sc += tail
    return sc


def callable_targets(rng, k, chunks, head):
    """calls addressed to bare callables of the receiver (a bound method, a function: RemoteMethodReference -> _doCall's
    `methodname is None` branch) mixed with calls on the ordinary Referenceable, callRemote and callRemoteOnly; several
    are completely received before the first one runs.  head: None, or 'gift' (the burst queues up behind a call that
    waits for its third-party reference, itself addressed to a callable or not)"""
    def spec(i):
        t = (None, "meth", None, "func", "meth")[i % 5] if rng.random() < 0.7 else rng.choice((None,) + TARGETS)
        return dict(kind=rng.choice(("plain", "plain", "plain", "slow", "gift" if head else "plain")), target=t,
                    only=rng.random() < 0.25, stalls=rng.choice((0, 0, 0, 1)))
    sc = []
    if head == "gift":
        sc += [["issue", 0, dict(kind="gift", target=rng.choice((None,) + TARGETS))]]
    off = rng.randrange(5)
    sc += [["issue", 0, spec(off + i)] for i in range(k)]
    sc += [["release", 0], ["release", 0]]
    nd = len(sc)
    body = [["deliver", 0, chunks] for _ in range(nd)]
    if rng.random() < 0.4:
        body.insert(rng.randint(1, len(body)), ["turn"])
    sc += body + [["turn"], ["turn"]]
    if head == "gift":
        sc += [["gift", 0, 0, rng.random() < 0.8], ["turn"], ["turn"], ["gift", 0, 0, True], ["turn"]]
    sc += [["finish", 0, 0, rng.random() < 0.7], ["turn"], ["turn"]]
    return sc


def inner_issue(rng, at, stalls, k, chunks):
    """the clause `calls issued while the sender is in the middle of streaming a large argument`, from the sender's own
    stack: application code that runs INSIDE the serialization of a call's argument (HOOKS: a Copyable's getStateToCopy,
    the body of a streaming slicer before its first token / between two chunks / right after a pause / as it finishes)
    issues calls; more calls are issued from ordinary code in the same turn, while the sender is paused, and after the
    stall was released.  Optionally the sender is already busy with an older stalled call, so that the hook runs later,
    out of a release."""
    n_in = rng.choice((1, 1, 2, 3))
    def plain():
        return dict(kind=rng.choice(("plain", "plain", "plain", "late", "slow")), only=rng.random() < 0.25,
                    target=rng.choice((None, None, None) + TARGETS))
    inner = [dict(plain(), stalls=rng.choice((0, 0, 0, 1))) for _ in range(n_in)]
    sc = []
    busy = rng.random() < 0.3
    if busy:
        sc += [["issue", 0, dict(kind="plain", stalls=1)]]
    sc += [["issue", 0, dict(kind=rng.choice(("plain", "plain", "gift")), stalls=stalls, only=rng.random() < 0.2, inner=dict(at=at, calls=inner))]]
    sc += [["issue", 0, plain()] for _ in range(k)]
    tail = [["release", 0] for _ in range(stalls + n_in + (1 if busy else 0))] + [["issue", 0, plain()] for _ in range(rng.randint(1, 2))]
    tail += [["turn"] for _ in range(rng.randint(0, 2))] + [["deliver", 0, chunks] for _ in range(rng.randint(0, 2))]
    rng.shuffle(tail)
    if rng.random() < 0.5:
        sc += [["turn"]]                                   # what was put off by one eventual-send arrives now
    return sc + tail


def rejected_body_chunked(rng, k, c):
    """calls refused by the receiver's schema at token-header time (a STRING where an int is required) whose body has to
    be discarded across several small packets, between ordinary calls"""
    sc = [["issue", 0, dict(kind="plain")]]
    for _ in range(k):
        sc.append(["issue", 0, dict(kind="early", body=rng.choice(("short", "long", "echo")), only=rng.random() < 0.2)])
        sc.append(["issue", 0, dict(kind=rng.choice(("plain", "plain", "late")))])
    chunks = [c] if rng.random() < 0.7 else [c, rng.choice((1, 2, 3)), c + 1]
    sc += [["deliver", 0, chunks] for _ in range(2 * k + 1)]
    sc += [["turn"], ["turn"]]
    return sc


def noisy_batch(rng, k):
    """one batch of the eventual queue holds, in some order: callables that issue calls, unrelated callables (some of
    which raise) and -- on a loopback connection -- the bytes of calls issued before"""
    items = [["noise", ["issue", 0, dict(kind="plain", only=rng.random() < 0.3)]] for _ in range(rng.randint(1, 2))]
    items += [["noise", rng.choice(("raise", "raise", "nop"))] for _ in range(rng.randint(1, 3))]
    items += [["issue", 0, dict(kind=rng.choice(("plain", "plain", "slow")), only=rng.random() < 0.3)] for _ in range(k)]
    rng.shuffle(items)
    sc = items + [["turn"]]
    for _ in range(rng.randint(0, 3)):
        sc += [rng.choice((["noise", "raise"], ["issue", 0, dict(kind="plain")], ["turn"], ["turn"]))]
    return sc


def raising_methods(rng, k, chunks, excs, head):
    """`each call is entered at most once`, from the receiver's own stack: methods that ARE entered and whose body then goes
    wrong (raises `exc` -- a real failing operation, see c04_impl.BODY_ERRORS -- or returns an already failed Deferred), on every
    kind of target (Referenceable with a RemoteInterface, schema-less Referenceable, bound method, function), callRemote and
    callRemoteOnly, keyword and positional arguments, mixed with ordinary calls; all completely received before the first one
    runs.  head: None, or 'gift' (the burst is queued behind a call that waits for its third-party reference).  The entered
    method has failed: nothing may enter it again, and the calls behind it run in order"""
    def spec(i):
        if i % 2 == 0 or rng.random() < 0.3:
            sp = dict(kind="raise", exc=excs[(i // 2) % len(excs)], how="fail" if rng.random() < 0.25 else "raise")
        else:
            sp = dict(kind=rng.choice(("plain", "plain", "slow", "late")))
        t = (None, "bare", None, "meth", "func")[i % 5] if rng.random() < 0.7 else rng.choice((None,) + TARGETS)
        sp.update(target=t, only=rng.random() < 0.25)
        if t is None and rng.random() < 0.35:
            sp["pos"] = rng.choice(("all", "some"))
        return sp
    sc = [["issue", 0, dict(kind="plain")]]
    if head == "gift":
        sc += [["issue", 0, dict(kind="gift", target=rng.choice((None,) + TARGETS))]]
    off = rng.randrange(10)
    sc += [["issue", 0, spec(off + i)] for i in range(k)]
    if rng.random() < 0.3:
        sc += [["issue", 1, dict(kind="raise", exc=rng.choice(excs), reenter=[dict(kind="plain")])]]
    nd = len(sc)
    body = [["deliver", 0, chunks] for _ in range(nd)]
    if rng.random() < 0.4:
        body.insert(rng.randint(1, len(body)), ["turn"])
    sc += body + [["deliver", 1, chunks], ["turn"], ["turn"]]
    if head == "gift":
        sc += [["gift", 0, 0, rng.random() < 0.8], ["turn"], ["turn"]]
    sc += [["finish", 0, 0, rng.random() < 0.5], ["turn"], ["turn"]]
    return sc


def all_specs(script):
    """every call spec of a script, nested ones (reenter / inner / queued callables) included"""
    todo = [st[2] for st in script if st[0] == "issue"] + [st[1][2] for st in script if st[0] == "noise" and isinstance(st[1], list)]
    while todo:
        sp = todo.pop()
        yield sp
        todo += list(sp.get("reenter") or []) + list((sp.get("inner") or {}).get("calls") or [])


# ------------------------------------------------------------------ direct oracle (no model involved)
def judge(r):
    """the property evaluated on what the real brokers did: list of (signature, description)"""
    bad = []
    if r["errors"]:
        bad.append(("harness-inconsistency", "; ".join(r["errors"][:3])))
    if any(r["lost"]):
        bad.append(("oracle/connection-lost", "a broker dropped the connection during the scenario"))
    for d in (0, 1):
        ev = r["events"][d]
        issued = r["issued"][d]
        ids = [c for c, _, _ in issued]
        if ids != list(range(len(ids))):
            bad.append(("harness-inconsistency", "issue numbering %r" % ids))
        ent = [c for e, c in ev if e == "entered"]
        lost_at = next((i for i, (e, c) in enumerate(ev) if e == "lost"), None)
        excused = set()
        if lost_at is not None:
            late = [c for e, c in ev[lost_at + 1:] if e == "entered"]
            g0 = set(r.get("gift0", [[], []])[d])
            if late and set(late) <= g0:
                bad.append(("note/entered-after-loss-giftid0", "beyond the property text (robustness observation): direction %d: call(s) %r, whose third-party reference the peer sent "
                            "with giftID 0, were entered after the receiving Broker had lost the connection (ackGift sends "
                            "nothing for giftID 0, so the late resolution is not turned into a failure)" % (d, late)))
            elif late:
                bad.append(("note/entered-after-loss", "beyond the property text (robustness observation): direction %d: call(s) %r were entered after the receiving Broker had lost "
                            "the connection (connectionLost -> finish)" % (d, late)))
            excused = set(ids) - set(c for e, c in ev[:lost_at] if e == "entered")
        if r.get("send_lost", [False, False])[d]:
            excused = set(ids) - set(ent)           # the sending side was cut off: whatever had not arrived is gone
        if len(set(ent)) != len(ent):
            bad.append(("oracle/duplicate-entry", "direction %d: a call was entered more than once: entered %r" % (d, ent)))
        elif ent != sorted(ent):
            bad.append(("oracle/order", "direction %d: calls issued in the order %r were entered in the order %r" % (d, ids, ent)))
        sent = r.get("sent", [[], []])[d]
        if ent == sorted(set(ent)) and sent != sorted(sent):
            bad.append(("oracle/order", "direction %d: calls issued in the order %r were handed to the connection in the order %r"
                        % (d, sorted(sent), sent)))
        # head of line: when c is entered, every earlier call that had been completely received is finished
        seen_q, done = set(), set()
        for e, c in (ev if ent == sorted(set(ent)) else []):      # (an order violation is reported as such)
            if e == "queued":
                seen_q.add(c)
            elif e in ("failed", "entered"):
                if e == "entered":
                    late = [c2 for c2 in seen_q if c2 < c and c2 not in done]
                    if late:
                        bad.append(("oracle/head-of-line", "direction %d: call %d was entered while the earlier, already received "
                                    "call(s) %r had neither been entered nor failed" % (d, c, sorted(late))))
                done.add(c)
        # after quiescence: exactly the acceptable calls were entered, once
        # only a gift that the scenario itself made unresolvable excuses a call from being entered
        failed_gifts = set(o[1] for ops in r["ops"][d] for o in ops if o[0] in ("G", "G0", "E") and not o[2])
        kinds = {c: k for c, k, _ in issued}
        for c, k in kinds.items():
            n = ent.count(c)
            if k in OK_KINDS and n == 0 and c not in failed_gifts and c not in excused:
                bad.append(("oracle/lost-call", "direction %d: call %d (%s) was issued but never entered%s, although every stall was "
                            "released, every byte delivered and every gift resolved"
                            % (d, c, k, " (the receiver reported it as failed)" if ("failed", c) in ev else "")))
            if k == "gift" and c in failed_gifts and n:
                bad.append(("oracle/rejected-call-entered", "direction %d: call %d entered although its gift failed" % (d, c)))
            if k not in OK_KINDS and n:
                bad.append(("oracle/rejected-call-entered", "direction %d: call %d (%s) must be refused but was entered" % (d, c, k)))
        # what the caller saw
        for (c, k), res in r["results"][d].items():
            if k == "plain" and res != c and c not in excused and not r.get("send_lost", [False, False])[d]:
                bad.append(("oracle/wrong-answer", "direction %d: call %d answered %r" % (d, c, res)))
            if k == "raise" and not str(res).startswith("exc:") and c not in excused and not r.get("send_lost", [False, False])[d]:
                bad.append(("oracle/wrong-answer", "direction %d: call %d, whose method was entered and raised, answered %r" % (d, c, res)))
    return bad


def report(ctx, impl, name, script, r, bad, seen, loopback=False, knobs=None):
    """shrink the script (once per signature), then record the failures"""
    sig0 = bad[0][0]
    if sig0 not in seen and not sig0.startswith("harness") and len(script) > 2 and not name.startswith("corpus/"):
        seen.add(sig0)

        def still(sc):
            try:
                return any(sg == sig0 for sg, _ in judge(impl.run_scenario(sc, loopback=loopback, knobs=knobs)))
            except Exception:
                return False
        small = common.shrink_list(script, still, max_rounds=60)
        if len(small) < len(script):
            r2 = impl.run_scenario(small, loopback=loopback, knobs=knobs)
            bad2 = judge(r2)
            if any(sg == sig0 for sg, _ in bad2):
                script, r, bad, name = small, r2, bad2, name + " (shrunk)"
    for sig, what in bad:
        ctx.fail(sig, "%s [scenario %s%s%s: %s]" % (what, name, " over LoopbackTransport" if loopback else "",
                                                     " with Broker attribute(s) %r set on both brokers" % knobs if knobs else "", json.dumps(script)[:1500]),
                 replay=dict(scenario=name, script=script, loopback=loopback, knobs=knobs, events=r["events"], issued=r["issued"]),
                 has_input=not sig.startswith("harness"))


# ------------------------------------------------------------------ correspondence
def coq_op(o):
    if o[0] == "I":
        f = FATES[o[1]]
        return "Issue %d %s" % (o[2], "(" + f % max(o[3], 1) + ")" if "%d" in f else f)
    if o[0] == "X":
        return "Disconnect"
    if o[0] == "C":
        return "SenderLost"
    if o[0] == "E":
        return "EarlyGift %d %s" % (o[1], coq_bool(o[2]))
    if o[0] == "G0":
        return "GiftReady0 %d %s" % (o[1], coq_bool(o[2]))
    if o[0] == "S":
        return "StallRelease"
    if o[0] == "D":
        return "Deliver"
    if o[0] == "G":
        return "GiftReady %d %s" % (o[1], coq_bool(o[2]))
    if o[0] == "T":
        return "Turn"
    raise ValueError(o)


def impl_obs(o):
    return (o["sendq"], [] if o["cur"] is None else [o["cur"]], o["wire"], (o["inq"], o["waiting"], o["entered"]),
            (o["lost"], [(c, (a, b, (f, l))) for (c, ((a, b), (f, l))) in o["pend"]]))


def norm(x):
    if isinstance(x, (list, tuple)):
        return tuple(norm(y) for y in x)
    return x


def correspond(ctx, runs):
    """runs: list of (name, script, d, result).  The model is evaluated on the ops that really happened."""
    shard = 250
    nbad = 0
    total_steps = 0
    for base in range(0, len(runs), shard):
        part = runs[base:base + shard]
        lines = []
        for name, script, d, r in part:
            lines.append(coq_list([coq_list([coq_op(o) for o in ops]) for ops in r["ops"][d]]))
        body = "Definition cases : list (list (list op)) := " + coq_list(lines) + ".\n" \
               "Eval vm_compute in map (observe_steps init) cases.\n"
        try:
            (vals,) = ctx.coq_eval("C04_cases_%d" % (base // shard), body, requires=REQ)
        except common.CoqEvalError as e:
            ctx.fail("correspondence-broken", "the model could not be evaluated: " + str(e)[-1500:], has_input=False)
            return
        for (name, script, d, r), mobs in zip(part, vals):
            ctx.traces += 1
            for i, (m, o) in enumerate(zip(mobs, r["obs"])):
                total_steps += 1
                m = norm(m)
                io = norm(impl_obs(o[d]))
                if m != io:
                    nbad += 1
                    if nbad <= 3:
                        ctx.fail("correspondence/state", "model and implementation disagree in scenario %s, direction %d, after step %d "
                                 "(%s): model (sendq, cur, wire, (inq, waiting, entered), (lost, [(call, ((unreferenceable children, AsyncAND.remaining), "
                                 "(AsyncAND._fired, unresolved gifts)))])) = %r, implementation %r; ops so far %r"
                                 % (name, d, i, script[i] if i < len(script) else "quiesce", m, io, r["ops"][d][:i + 1]),
                                 replay=dict(scenario=name, script=script, direction=d, step=i, model=m, impl=io,
                                             ops=r["ops"][d]), has_input=False)
                    break
    ctx.extra["correspondence_traces"] = len(runs)
    ctx.extra["correspondence_steps"] = total_steps
    ctx.extra["correspondence_disagreements"] = nbad


def coq_inner(o):
    f = FATES[o[1]]
    return "(%d, %s)" % (o[2], (f % max(o[3], 1)) if "%d" in f else f)


def nested_correspond(ctx, runs):
    """calls issued from INSIDE the serialization of a call, nested reading: the model gets only the ops of ordinary code
    plus the hook table (call, control point) -> calls issued there, as it really happened; lib/Order.v nrun / pump_h must
    fire every hook at the step at which the real slicer ran it -- inside the issuing send() on an idle sender, out of a
    later release when the hooked call was only queued -- and leave the real sender's state after every script step"""
    cases = []
    for name, script, d, r in runs:
        steps = r["ops"][d]
        if not any(o[0] == "I" and len(o) > 4 and o[4] is not None for ops in steps for o in ops):
            continue
        table, order = {}, []
        born, nst, cid = {}, {}, 0          # call -> index of the step in which it was issued / its number of stalls
        for si, ops in enumerate(steps):
            for o in ops:
                if o[0] == "I":
                    born[cid], nst[cid] = (si if o[4] is None else -1), o[2]
                    cid += 1
                if o[0] == "I" and o[4] is not None:
                    key = tuple(o[4])
                    if key not in table:
                        table[key] = []
                        order.append(key)
                        ctx.hist("hook_ran", "after a pause of its call" if key[1] != nst.get(key[0]) else
                                 ("inside the send() that issued its call (idle sender)" if born.get(key[0]) == si else
                                  "when its queued call was taken off the queue (busy sender)"))
                    table[key].append(coq_inner(o))
        H = coq_list(["((%d, %d), %s)" % (k[0], k[1], coq_list(table[k])) for k in order])
        outer = coq_list([coq_list([coq_op(o) for o in ops if not (o[0] == "I" and o[4] is not None)]) for ops in steps])
        cases.append((name, script, d, r, "(%s, %s)" % (H, outer), sum(len(v) for v in table.values())))
    ctx.extra["nested_traces"] = len(cases)
    if not cases:
        return
    nbad = nsteps = 0
    shard = 200
    for base in range(0, len(cases), shard):
        part = cases[base:base + shard]
        body = "Definition cases : list (list hook * list (list op)) := " + coq_list([c[4] for c in part]) + ".\n" \
               "Eval vm_compute in map (fun c => (observe_steps_h (ninit (fst c)) (snd c), hooks_left_after (fst c) (snd c))) cases.\n"
        try:
            (vals,) = ctx.coq_eval("C04_nested_%d" % (base // shard), body, requires=REQ)
        except common.CoqEvalError as e:
            ctx.fail("correspondence-broken", "the model with hooks could not be evaluated: " + str(e)[-1500:], has_input=False)
            return
        for (name, script, d, r, lit, ninner), (mobs, left) in zip(part, vals):
            ctx.traces += 1
            ctx.hist("nested_calls_issued_from_inside", min(ninner, 6))
            bad = None
            for i, (m, o) in enumerate(zip(mobs, r["obs"])):
                nsteps += 1
                m = norm(m)
                io = norm(impl_obs(o[d]))
                if m != io:
                    bad = "after step %d (%s): model with hooks %r, implementation %r" % (i, script[i] if i < len(script) else "quiesce", m, io)
                    break
            if bad is None and left:
                bad = "at the end %d call(s) that the real slicers issued from inside are still in the model's hook table (hook never ran)" % left
            if bad:
                nbad += 1
                if nbad <= 3:
                    ctx.fail("correspondence/nested-state", "model with hooks (lib/Order.v nrun: calls issued from inside a serialization come "
                             "out of the hook table) and implementation disagree in scenario %s, direction %d, %s; case %s"
                             % (name, d, bad, lit[:900]),
                             replay=dict(scenario=name, script=script, direction=d, ops=r["ops"][d]), has_input=False)
    ctx.extra["nested_steps"] = nsteps
    ctx.extra["nested_disagreements"] = nbad


def local_correspond(ctx, impl):
    """the eventual queue as a channel (LocalReferenceable calls / LoopbackTransport bytes) shared with unrelated
    callables, raising callables and callables that write when they run: model lrun vs the real queue"""
    cases = []
    for i in range(ctx.n(120, 1200)):
        ops = [ctx.rng.choice("IIITTNBBS") for _ in range(ctx.rng.randint(1, 16))]
        cases.append((("local", "loopback")[i % 2], ops))
    cases.append(("loopback", list("SBIITBITT")))
    obs = [impl.run_local(ops, mode) for mode, ops in cases]
    names = {"I": "LIssue", "T": "LTurn", "N": "LNoise false", "B": "LNoise true", "S": "LSpawnOp"}
    body = "Definition cases : list (list lop) := " + coq_list(
        [coq_list([names[o] for o in ops]) for _, ops in cases]) + ".\n" \
        "Eval vm_compute in map (fun ops => l_entered (lrun ops)) cases.\n"
    try:
        (vals,) = ctx.coq_eval("C04_local", body, requires=REQ)
    except common.CoqEvalError as e:
        ctx.fail("correspondence-broken", "the eventual-channel model could not be evaluated: " + str(e)[-1500:], has_input=False)
        return
    for (mode, ops), o, m in zip(cases, obs, vals):
        ctx.case(["channel", mode, ops], nontrivial=ops.count("I") + ops.count("S") >= 2 and "T" in ops)
        ctx.hist("channel_mode", mode)
        ctx.traces += 1
        if o != sorted(o) or len(set(o)) != len(o):
            ctx.fail("oracle/local-order", "%s: items written 0..n through the eventual queue were delivered in the order %r (ops %s: "
                     "I write, N unrelated callable, B raising callable, S callable that writes, T one turn)"
                     % ("LocalReferenceable" if mode == "local" else "LoopbackTransport", o, "".join(ops)),
                     replay=dict(ops=ops, mode=mode, delivered=o))
        if list(m) != o:
            ctx.fail("correspondence/local", "eventual-channel model %r vs implementation %r on %s (%s)" % (m, o, "".join(ops), mode),
                     replay=dict(ops=ops, mode=mode, model=m, impl=o), has_input=False)


def tubs_family(ctx, impl):
    rng = ctx.rng
    for i in range(ctx.n(24, 400)):
        plan = "".join(rng.choice("ppgs") for _ in range(rng.randint(3, 7)))
        if i % 4 == 0:
            plan = "g" + plan[1:]
        reach = rng.random() < 0.8
        cs = rng.choice((None, [1, 2, 3], [7, 50], [1], [13, 200]))
        seed = rng.randrange(1 << 30)
        import random as _random
        r = impl.run_tubs(plan, _random.Random(seed), cs, reach)
        case = dict(family="tubs", plan=plan, chunk_sizes=cs, c_reachable=reach, seed=seed)
        if "setup_failed" in r:
            ctx.fail("harness-inconsistency", "tubs: setup failed %r" % r, replay=case, has_input=False)
            continue
        ctx.case(case, nontrivial=("g" in plan or "s" in plan))
        ctx.hist("tubs_plan_len", len(plan))
        ctx.hist("tubs_gifts", plan.count("g"))
        ent = r["entered"]
        want = [c for c, k in enumerate(plan) if reach or k != "g"]
        if len(set(ent)) != len(ent):
            ctx.fail("oracle/duplicate-entry", "real Tubs: a call was entered more than once: %r (%r)" % (ent, case), replay=dict(case, **r))
        elif ent != sorted(ent):
            ctx.fail("oracle/order", "real Tubs: calls issued 0..%d were entered in the order %r (%r)" % (len(plan) - 1, ent, case),
                     replay=dict(case, **r))
        elif ent != want:
            ctx.fail("oracle/lost-call", "real Tubs: entered %r, expected %r (%r)" % (ent, want, case), replay=dict(case, **r))
        bad = [c for c in ent if r["results"].get(c) != c]
        if bad:
            ctx.fail("oracle/wrong-answer", "real Tubs: calls %r entered but answered %r (%r)" % (bad, r["results"], case),
                     replay=dict(case, **r))
    ctx.sample(dict(tubs_case=case, entered=ent))


BROKER_CALL_WITNESSES = (
    "smdmdTR",      # a paused sender; application calls and two decrefs queue up behind it
    "smdR",         # one call to the peer's Broker behind one application call
    "smgoaR",       # decgift, directly and through TheirReferenceUnslicer.ackGift
    "sdgR",         # only calls to the peer's Broker are queued
    "scdnfgR",      # callRemote routes (decref with an answer, getReferenceByName, Broker.freeYourReference) next to callRemoteOnly
    "SmdRgoRa",     # a callRemoteOnly that pauses twice; more calls are issued between the two pauses
    "mdgmDT",       # idle sender
    "mDTdDTgDTaDTm",  # idle sender, every call delivered and entered before the next is issued
    "mmTsdDgRmfDTaR",  # idle, then paused, with deliveries in between
)


def judge_broker_calls(r):
    """the property's rule on one history that mixes application calls with calls to the peer's Broker object"""
    bad = []
    want = [c for c, _ in r["issued"]]
    meth = dict(r["issued"])
    for when, ent in (("before the final quiescence", r["entered"]), ("", r["final"])):
        cids = [c for c, _ in ent]
        if len(set(cids)) != len(cids):
            bad.append(("oracle/duplicate-entry", "a call was entered more than once %s: %r" % (when, ent)))
        elif cids != sorted(cids):
            bad.append(("oracle/order", "issued in the order %r, entered in the order %r %s" % (r["issued"], ent, when)))
        elif any(meth.get(c) != m for c, m in ent):
            bad.append(("oracle/wrong-method", "issued %r, entered %r %s" % (r["issued"], ent, when)))
        if bad:
            return bad
    if [c for c, _ in r["final"]] != want:
        bad.append(("oracle/lost-call", "issued %r, entered only %r%s" % (r["issued"], r["final"],
                    " (the connection was dropped)" if any(r["lost"]) else "")))
    wrong = {c: v for c, v in r["results"].items() if v != (c if meth[c] != "decref" else None)}
    if wrong and not bad:
        bad.append(("oracle/wrong-answer", "answers %r to the calls %r" % (wrong, r["issued"])))
    if r["gifts_left"] and not bad:
        bad.append(("oracle/lost-call", "decgift was entered for %r but the gifts %r are still held" % (r["final"], r["gifts_left"])))
    if any(r["lost"]) and not bad:
        bad.append(("oracle/connection-lost", "the connection was dropped"))
    return bad


def broker_calls_family(ctx, impl):
    """calls addressed to the peer's Broker object (remote_broker, clid 0: decref / decgift / getReferenceByName, by
    callRemote and callRemoteOnly, directly and through Broker.freeYourReference / TheirReferenceUnslicer.ackGift)
    interleaved with application calls on the same connection, while the sender is idle and while it is paused in a
    streaming argument; entry into the receiving Broker's own remote_ methods is logged together with the application's"""
    rng = ctx.rng
    reported = {}

    def go(ops, d, chunks, fixed=False):
        r = impl.run_broker_calls(list(ops), d, chunks)
        nb = sum(1 for _, m in r["issued"] if m != "m")
        ctx.case(["broker-calls", "".join(ops), d, chunks], nontrivial=len(r["issued"]) >= 3 and 0 < nb < len(r["issued"]))
        ctx.hist("broker_calls_to_peer_broker", nb)
        ctx.hist("broker_calls_sender", "paused" if ("s" in ops or "S" in ops) else "idle")
        for sig, what in judge_broker_calls(r):
            if reported.get(sig, 0) >= 2:
                continue
            reported[sig] = reported.get(sig, 0) + 1
            small = list(ops)
            if not fixed:
                def still(o2):
                    try:
                        return any(sg == sig for sg, _ in judge_broker_calls(impl.run_broker_calls(list(o2), d, chunks)))
                    except Exception:
                        return False
                small = common.shrink_list(list(ops), still, max_rounds=40)
                if len(small) < len(ops):
                    r2 = impl.run_broker_calls(small, d, chunks)
                    w2 = [w for sg, w in judge_broker_calls(r2) if sg == sig]
                    if w2:
                        r, what = r2, w2[0] + " (shrunk)"
                    else:
                        small = list(ops)
            ctx.fail(sig, "calls to the peer's Broker object mixed with application calls, direction %d: %s [ops %s: m/o application "
                     "callRemote/callRemoteOnly, s/S the same with an argument that pauses on 1/2 Deferreds, d/c decref by callRemoteOnly/"
                     "callRemote, f Broker.freeYourReference, g decgift by callRemoteOnly, a TheirReferenceUnslicer.ackGift, n "
                     "getReferenceByName, R release the pause, D deliver, T one eventual turn; chunks %r]"
                     % (d, what, "".join(small), chunks),
                     replay=dict(family="broker-calls", ops="".join(small), d=d, chunks=chunks, result=r))
        return r
    # fixed part (independent of the random stream)
    for w in BROKER_CALL_WITNESSES:
        for d in (0, 1):
            r = go(w, d, None, fixed=True)
    ctx.sample(dict(broker_calls=BROKER_CALL_WITNESSES[-1], entered=r["final"]))
    # random part
    for i in range(ctx.n(80, 2500)):
        ops = [rng.choice("mmosSddcggafnRRDTT") for _ in range(rng.randint(3, 16))]
        if i % 3 == 0:
            ops[0] = rng.choice("sS")
        go(ops, i % 2, rand_chunks(rng))


def judge_negotiated(r):
    bad = []
    if not r.get("master_attached") or "entered" not in r:
        return [("harness-inconsistency", "negotiation did not complete: %r" % r)]
    n = r["issued"]
    for who, ent, res, want in (("calls of the deciding side", r["entered"], r["results"], list(range(n))),
                                ("calls of the other side", r["slave_entered"], r["slave_results"], sorted(r["slave_results"]))):
        if len(set(ent)) != len(ent):
            bad.append(("oracle/duplicate-entry", "%s: a call was entered more than once: %r" % (who, ent)))
        elif ent != sorted(ent):
            bad.append(("oracle/order", "%s: issued in the order %r, entered in the order %r" % (who, want, ent)))
        elif ent != want:
            bad.append(("oracle/lost-call", "%s: issued %r, entered only %r%s" % (who, want, ent,
                        " (the connection was dropped)" if any(r["lost"]) else "")))
        wrong = {c: v for c, v in res.items() if v != c}
        if wrong and not bad:
            bad.append(("oracle/wrong-answer", "%s: answers %r" % (who, wrong)))
    if any(r["lost"]) and not bad:
        bad.append(("oracle/connection-lost", "the freshly negotiated connection was dropped"))
    return bad


def negotiated_family(ctx, impl, fixed):
    """connections that start with a real negotiation; the deciding side calls at once, so its first calls follow the
    decision block on the wire; that stream is cut into packets everywhere and several packets are handed over before the
    eventual queue runs"""
    rng = ctx.rng
    reported = set()

    def go(cfg):
        r = impl.run_negotiated(cfg["master_is_client"], cfg["n_first"], cfg["n_later"], cfg["cuts"], cfg["burst"], cfg["seed"],
                                pad=cfg.get("pad", 0), slave_calls=cfg.get("slave_calls", 0))
        ctx.case(["negotiated", cfg], nontrivial=bool(cfg["cuts"]) and cfg["n_first"] >= 2)
        ctx.hist("negotiated_packets", len(cfg["cuts"]) + 1)
        for sig, what in judge_negotiated(r):
            if sig not in reported or len(cfg["cuts"]) <= 1:
                reported.add(sig)
                ctx.fail(sig, "connection starting with a negotiation: %s [%r; the deciding side's stream is %s bytes, its decision "
                         "block ends at byte %s; `cuts` are the packet boundaries, `burst` packets are delivered back to back]"
                         % (what, cfg, r.get("stream_len"), r.get("decision_len")),
                         replay=dict(family="negotiated", cfg=cfg, result={k: v for k, v in r.items() if k != "got"}),
                         has_input=not sig.startswith("harness"))
        return r
    # fixed part (independent of the random stream): every two-packet split of [decision block + first calls]
    for cfg0 in fixed:
        probe = go(dict(cfg0, cuts=[], burst=1))
        if "stream_len" not in probe:
            continue
        lo, hi = max(1, probe["decision_len"] - 4), probe["stream_len"]
        step = cfg0.get("step", 1)
        offs = sorted(set(list(range(lo, hi, step)) + [probe["decision_len"], probe["decision_len"] + 1, hi - 1]))
        for o in offs:
            go(dict(cfg0, cuts=[o], burst=2))
    # random part: several cuts, longer bursts, padded calls, calls in both directions
    for i in range(ctx.n(60, 1500)):
        n_first = rng.randint(1, 5)
        cfg = dict(master_is_client=rng.random() < 0.5, n_first=n_first, n_later=rng.randint(0, 3), burst=rng.randint(1, 4),
                   seed=rng.randrange(1 << 30), pad=rng.choice((0, 0, 30, 300)), slave_calls=rng.choice((0, 0, 2)))
        cfg["cuts"] = sorted(rng.sample(range(1, 400 + 60 * n_first), rng.randint(1, 5)))
        go(cfg)


def unit_facts(ctx, impl):
    """each translated shape fact, measured on the real class and evaluated in the model's queue primitives"""
    ns = list(range(0, 6))
    body = """
Definition put_all {A} (p : push_end) (l : list A) : list A := fold_left (fun q x => q_put p x q) l [].
Fixpoint drain {A} (p : pop_end) (fuel : nat) (q : list A) : list A :=
  match fuel with 0 => [] | S f => match q_take p q with None => [] | Some (x, r) => x :: drain p f r end end.
Definition rest1 {A} (p : pop_end) (q : list A) : list A := match q_take p q with None => q | Some (_, r) => r end.
Definition batch (l : list nat) := match evq_iter with IterForward => l | IterReverse => rev l end.
Definition facts (n : nat) :=
  (put_all sendq_push (seq 0 n), drain sendq_pop n (put_all sendq_push (seq 0 n)),
   (batch (put_all evq_push (seq 0 n)), batch (put_all evq_push (map (fun j => 100 + j) (batch (put_all evq_push (seq 0 n)))))),
   (put_all inq_push (seq 0 n), rest1 inq_pop (put_all inq_push (seq 0 n)),
    match head_of_line with HolBlocking => rest1 inq_pop (put_all inq_push (seq 0 n))
                          | HolNone => rest1 inq_pop (rest1 inq_pop (put_all inq_push (seq 0 n))) end)).
Eval vm_compute in map facts %s.
Eval vm_compute in send_idle_before_enqueue.
""" % coq_list(ns)
    try:
        vals, idle = ctx.coq_eval("C04_facts", body, requires=REQ)
    except common.CoqEvalError as e:
        ctx.fail("correspondence-broken", "the shape facts could not be evaluated: " + str(e)[-1500:], has_input=False)
        return
    for n, m in zip(ns, vals):
        o = impl.measure_disciplines(n)
        mm = dict(sendq_layout=m[0], sendq_drain=m[1], evq_batch1=m[2][0], evq_batch2=m[2][1],
                  inq_layout=m[3][0], inq_first=m[3][1], inq_second=m[3][2])
        ctx.case(["facts", n], nontrivial=n >= 2)
        for k, v in mm.items():
            if list(v) != o[k]:
                ctx.fail("correspondence/shape-fact", "translated discipline %s for %d items: model %r, real class %r" % (k, n, v, o[k]),
                         replay=dict(n=n, fact=k, model=v, impl=o[k]), has_input=False)
        if n == 1 and (o["idle_wakes"] != bool(idle) or o["busy_wakes"]):
            ctx.fail("correspondence/shape-fact", "RootSlicer.send wake-up: idle sender woken=%r (model %r), busy sender woken=%r"
                     % (o["idle_wakes"], idle, o["busy_wakes"]), replay=dict(measured=o, model_idle=idle), has_input=False)


def packet_correspond(ctx, runs):
    """the byte level (lib/OrderBytes.v: C07's tokenizer + top-level framing) on the REAL bytes cut into the REAL packets:
    after every packet the number of OPEN tokens seen (Banana.objectCounter), whether the receiver is between top-level
    objects, and -- on streams that carry only accepted tracked calls -- the number of completed top-level objects
    (= Broker.scheduleCall invocations = model Deliver steps)"""
    picked, budget = [], 60000
    for name, script, d, r in runs:
        pk = r["packets"][0]
        if d != 0 or not pk or r["recv_lost"][0]:
            continue
        nbytes = sum(len(p[0]) for p in pk)
        if nbytes > budget or len(picked) >= ctx.n(60, 400):
            continue
        budget -= nbytes
        only_calls = not r["issued"][1] and all(k not in ("early", "abort") for _, k, _ in r["issued"][0])
        picked.append((name, script, pk, only_calls))
    if not picked:
        return
    body = "Local Open Scope Z_scope.\nDefinition cases : list (list (list Z)) := " + coq_list(
        [coq_list([coq_list(["%d" % b for b in p[0]]) for p in pk]) for _, _, pk, _ in picked]) + ".\n" \
        "Eval vm_compute in map (after_each (Recv.init tt) finit) cases.\n"
    try:
        (vals,) = ctx.coq_eval("C04_packets", body, requires=REQ + ["Verif.lib.Recv", "Verif.lib.OrderBytes"])
    except common.CoqEvalError as e:
        ctx.fail("correspondence-broken", "the byte-level model could not be evaluated: " + str(e)[-1500:], has_input=False)
        return
    npk = 0
    for (name, script, pk, only_calls), m in zip(picked, vals):
        ctx.traces += 1
        for i, ((data, nsched, idle, opens), mv) in enumerate(zip(pk, m)):
            npk += 1
            mdone, midle, mopens = mv[0], mv[1], mv[2]
            if (mopens, bool(midle)) != (opens, idle) or (only_calls and mdone != nsched):
                ctx.fail("correspondence/packets", "byte-level model and receiver disagree in scenario %s after packet %d (%d bytes): model "
                         "(completed top-level objects, between objects, OPENs seen) = %r, receiver (scheduleCalls%s, between objects, "
                         "objectCounter) = %r" % (name, i, len(data), (mdone, bool(midle), mopens),
                                                  "" if only_calls else " [stream also carries other objects]", (nsched, idle, opens)),
                         replay=dict(scenario=name, script=script, packet=i), has_input=False)
                break
    ctx.extra["packet_traces"] = len(picked)
    ctx.extra["packets_compared"] = npk


def async_and_facts(ctx, impl):
    """the translated AsyncAND (and_init / and_cb) against the real class: all result sequences over up to 4 components"""
    import itertools
    cases = [(n, list(rs)) for n in range(1, 5) for k in range(1, n + 1) for rs in itertools.product((True, False), repeat=k)]
    body = """
Definition and_trace (n : Z) (rs : list bool) :=
  snd (fold_left (fun acc r => match acc with (st, fire, tr) =>
                    match and_apply st fire r with (st', fire') =>
                      (st', fire', tr ++ [(fst st', snd st', match fire' with Some true => 1 | Some false => 0 | None => 2 end)]) end end)
                 rs (and_init n, @None bool, [])).
Eval vm_compute in map (fun c => and_trace (fst c) (snd c)) %s.
""" % coq_list(["(%d%%Z, %s)" % (n, coq_list([coq_bool(x) for x in rs])) for n, rs in cases])
    try:
        (vals,) = ctx.coq_eval("C04_asyncand", body, requires=REQ)
    except common.CoqEvalError as e:
        ctx.fail("correspondence-broken", "the translated AsyncAND could not be evaluated: " + str(e)[-1500:], has_input=False)
        return
    for (n, rs), m in zip(cases, vals):
        o = impl.run_async_and(n, rs)
        ctx.case(["asyncand", n, rs], nontrivial=n >= 2)
        if any(x[3] > 1 for x in o):
            ctx.fail("oracle/ready-fired-twice", "util.AsyncAND over %d Deferreds fired more than once for results %r" % (n, rs),
                     replay=dict(n=n, results=rs, trace=o))
        if [list(x) for x in norm(m)] != [[a, b, c] for a, b, c, _ in o]:
            ctx.fail("correspondence/async-and", "AsyncAND over %d Deferreds, results %r: translated (remaining, _fired, outcome) %r, real class %r"
                     % (n, rs, m, o), replay=dict(n=n, results=rs, model=m, impl=o), has_input=False)


# ------------------------------------------------------------------ entry point
def run(ctx):
    ctx.rule = ("a scenario is a script of issue (plain / method returning a Deferred that completes or errbacks later / method whose body "
                "raises one of 14 exceptions (or returns a failed Deferred) after it was entered / streaming argument that pauses on 1-3 Deferreds / one or two third-party "
                "references / schema-violating argument / unserializable argument / missing argument / locally refused; "
                "callRemote or callRemoteOnly; addressed to a Referenceable with a RemoteInterface, to a schema-less second Referenceable or to a bare bound method / function of the receiver; optionally issuing further "
                "calls from inside the remote_ method or from inside the send-side serialization of its own argument: getStateToCopy, the body of a "
                "streaming slicer before / between / after its chunks and pauses), "
                "release-stall, deliver-up-to-next-call (random chunk sizes), resolve-or-fail-one-gift, receiver-loses-connection and eventual-turn steps "
                "on a real Broker pair in both directions; distinct = distinct script; non-trivial = at least 3 calls were "
                "really sent in one direction and at least one of them was stalled, blocked behind a gift, refused, or "
                "issued re-entrantly")
    ctx.assumptions = [
        "the transport delivers bytes in order (TCP); the harness moves the bytes itself, in arbitrary pieces",
        "Twisted Deferred callback chains run synchronously and in the order added (modelled, not verified)",
        "connection loss: the receiver's loss (Disconnect) and the sender's loss (SenderLost: it goes on serializing into a dead "
        "transport) are model ops with theorems, both exercised by the correspondence",
        "a third-party reference is resolved by a stand-in Tub.getReference whose Deferred the harness fires, after the call "
        "carrying it has been completely received (GiftReady) or while it is still being received (EarlyGift); a call carries "
        "at most two references at argument level (references nested in containers: not modelled, oracle of C08/C09)",
        "the byte level (lib/OrderBytes.v: C07's tokenizer + top-level framing) is compared with the real receiver on the real "
        "bytes and packets (OPENs seen, between-objects flag, completed calls); the link call -> bytes (CallSlicer) is C01's",
        "the Deferred network of a delivery (AsyncAND x2, ArgumentUnslicer counters) is translated statement by statement; "
        "how the pieces are wired together (receiveClose, TheirReferenceUnslicer._ready/_failed) is hand-modelled, checked "
        "as shape facts and compared with the real counters after every step",
        "the receive path (Banana.handleData, CallUnslicer) is tied by trace validation only: one model Deliver step = the "
        "bytes up to the end of the next serialized call",
        "a call issued from inside the serialization of another call (re-entrant Broker.send under Banana.produce) is logged as an "
        "Issue op at the moment Broker.send gets its CallSlicer, tagged with the call and control point whose hook issued it.  FLAT "
        "reading: an ordinary Issue op there; NESTED reading: not an op at all but an entry of the hook table of lib/Order.v "
        "(nrun / pump_h / issue_h / release_h: the hook fires inside the issuing send() on an idle sender, out of a later release "
        "when the hooked call was only queued behind a paused one).  That both readings give the same state, for every table, "
        "history and sender state, is a theorem (C04_reentrant_history_is_flat_history); BOTH are evaluated on the real scenarios "
        "and compared with the real sender after every step (correspondence/state, correspondence/nested-state)",
        "what the body of an entered method does (returns, returns a Deferred, raises) is not a model notion: a call whose method "
        "raises after entry is an FPlain call of the model (entered once); the scenarios mix such calls, on every kind of target, "
        "with the others and validate them against the same model",
        "the kind of target (Referenceable with / without RemoteInterface / bound method / function) is not a model notion: Broker._doCall must invoke either kind "
        "directly (shape fact, fail closed); calls to all three kinds are mixed in the scenarios and validated against the same model",
        "calls addressed to the peer's Broker object itself (remote_broker, clid 0: decref / decgift / getReferenceByName, issued by "
        "callRemote / callRemoteOnly, Broker.freeYourReference, TheirReferenceUnslicer.ackGift) are remote methods of the same "
        "connection: family broker-calls mixes them with application calls on an idle and on a paused sender and logs entry into "
        "Broker.remote_decref / remote_decgift / remote_getReferenceByName together with the application methods (direct oracle only)",
    ]
    ok, log = ctx.coq_build(["props/C04.vo"])
    from harness import c04_impl as impl
    if tuple(BODY_ERROR_NAMES) != tuple(impl.BODY_ERROR_NAMES):
        ctx.fail("harness-inconsistency", "BODY_ERROR_NAMES of c04.py and c04_impl.py differ", has_input=False)
    import gc
    gc.disable()        # finalizers of dead RemoteReferences send messages: only at the quiescent points chosen below
    before = len(ctx.failures)
    runs = []
    seen_sigs = set()
    noted = set()

    ndone = [0]

    def do(name, script, loopback=False, knobs=None):
        ndone[0] += 1
        if ndone[0] % 40 == 0:
            impl.settle_gc()
        r = impl.run_scenario(script, loopback=loopback, knobs=knobs)
        sent = [len(r["issued"][d]) for d in (0, 1)]
        interesting = any(k != "plain" or st for d in (0, 1) for _, k, st in r["issued"][d]) or sent[1] > 0 or '"target"' in json.dumps(script) \
            or '"inner"' in json.dumps(script)
        ctx.case([loopback, script], nontrivial=max(sent) >= 3 and interesting)
        ctx.hist("transport", "loopback" if loopback else "byte-queue")
        ctx.hist("calls_sent_dir0", min(sent[0], 20))
        for d in (0, 1):
            for _, k, st in r["issued"][d]:
                ctx.hist("call_kind", k)
                ctx.hist("stalls", st)
            for e, _ in r["events"][d]:
                ctx.hist("event", e)
        ctx.hist("script_len", 10 * (len(script) // 10))
        for sp in all_specs(script):
            ctx.hist("call_target", sp.get("target") or "referenceable")
            if sp.get("kind") == "raise":
                ctx.hist("method_body_raises", "%s (%s)" % (sp.get("exc") or "TypeError", sp.get("how") or "raise"))
            if sp.get("inner"):
                ctx.hist("issued_from_inside_serialization_at", sp["inner"]["at"])
        bad = judge(r)
        # C04 says nothing about connection loss: what happens after a loss is recorded as a note, never as a violation
        # (the order / at-most-once / head-of-line oracles above have judged the same history)
        for sg, what in bad:
            if sg.startswith("note/") and sg not in noted:
                noted.add(sg)
                ctx.note("%s [scenario %s: %s]" % (what, name, json.dumps(script)[:600]))
        bad = [(sg, what) for sg, what in bad if not sg.startswith("note/")]
        if bad:
            report(ctx, impl, name, script, r, bad, seen_sigs, loopback, knobs)
        if loopback or knobs:
            return r                                # bytes travel in the eventual queue: direct oracle only
        has_gift = any(k == "gift" for d in (0, 1) for _, k, _ in r["issued"][d])
        runs.append((name, script, 0, r))
        if not has_gift and sent[1]:
            runs.append((name, script, 1, r))      # reverse direction is free of the broker's own decgift calls
        return r

    # 1. corpus first (regression witnesses; must pass)
    if os.path.isdir(CORPUS):
        for fn in sorted(os.listdir(CORPUS)):
            if fn.endswith(".json") and fn != "negotiated.json":
                doc = json.load(open(os.path.join(CORPUS, fn)))
                r = do("corpus/" + fn, doc["script"], loopback=bool(doc.get("loopback")))
                ctx.sample(dict(corpus=fn, entered=[[c for e, c in r["events"][d] if e == "entered"] for d in (0, 1)]))
    if ctx.replay:
        doc = json.load(open(ctx.replay))
        sc = (doc.get("replay") or {}).get("script") or doc.get("script")
        if sc:
            do("replay", sc, loopback=bool((doc.get("replay") or doc).get("loopback")), knobs=(doc.get("replay") or doc).get("knobs"))
    # 2. targeted families
    rng = ctx.rng
    for k in range(2, ctx.n(7, 12)):
        for stalls in (1, 2, 3):
            for rep in range(ctx.n(2, 6)):
                do("stall-burst-%d-%d-%d" % (k, stalls, rep), stall_burst(rng, k, stalls, rand_chunks(rng)))
    for k in range(1, ctx.n(6, 10)):
        for okv in (True, False):
            for rep in range(ctx.n(2, 6)):
                do("gift-block-%d-%s-%d" % (k, okv, rep), gift_block(rng, k, okv, rand_chunks(rng)))
    for variant in ("reject", "errback"):
        for resolve in ("late", "fail", "never"):
            for k in range(1, ctx.n(4, 7)):
                for rep in range(ctx.n(2, 5)):
                    do("failure-behind-gift-%s-%s-%d-%d" % (variant, resolve, k, rep),
                       failure_behind_gift(rng, variant, resolve, k, rand_chunks(rng)))
    for results in ((True, True), (True, False), (False, True), (True, True, True), (False, False, True), (True, False, True, True)):
        for k in range(1, ctx.n(3, 6)):
            for rep in range(ctx.n(1, 4)):
                do("multi-gift-%s-%d-%d" % ("".join("ty"[0] if x else "f" for x in results), k, rep),
                   multi_gift(rng, k, results, rand_chunks(rng)))
    for when in ("waiting", "queued", "paused"):
        for k in range(1, ctx.n(4, 7)):
            for rep in range(ctx.n(2, 5)):
                do("loss-%s-%d-%d" % (when, k, rep), loss_family(rng, k, rand_chunks(rng), when))
    for results in ((True,), (False,), (True, True), (True, False), (False, True)):
        for k in range(1, ctx.n(3, 6)):
            for rep in range(ctx.n(2, 4)):
                do("early-gift-%s-%d-%d" % ("".join("t" if x else "f" for x in results), k, rep),
                   early_gift_family(rng, k, rand_chunks(rng), results))
    for when in ("written", "paused"):
        for k in range(1, ctx.n(4, 7)):
            for rep in range(ctx.n(2, 4)):
                do("sender-loss-%s-%d-%d" % (when, k, rep), sender_loss_family(rng, k, rand_chunks(rng), when))
    # time passes: call delivery must not depend on it -- with the default configuration and with every configuration
    # attribute of Broker/Banana that the reference tree does not have, set to non-default values
    for i, sc in enumerate(clock_scripts()):
        do("clock-%d" % i, sc)
    for knob, default in sorted(impl.new_knobs().items()):
        ctx.note("configuration attribute Broker.%s (default %r) does not exist on the reference tree: exercised with non-default values" % (knob, default))
        for v in knob_values(default):
            for i, sc in enumerate(clock_scripts()):
                do("knob-%s=%r-%d" % (knob, v, i), sc, knobs={knob: v})
            for i in range(ctx.n(10, 60)):
                do("knob-%s=%r-random-%d" % (knob, v, i), rand_script(rng, 24, gifts=True), knobs={knob: v})
    for c in (1, 2, 3, 4, 5, 7, 11):
        for k in range(1, ctx.n(3, 5)):
            for rep in range(ctx.n(1, 4)):
                do("rejected-body-chunked-%d-%d-%d" % (c, k, rep), rejected_body_chunked(rng, k, c))
    for head in (None, "gift"):
        for k in range(2, ctx.n(5, 9)):
            for rep in range(ctx.n(2, 8)):
                do("callable-targets-%s-%d-%d" % (head, k, rep), callable_targets(rng, k, rand_chunks(rng), head))
    for head in (None, "gift"):
        for gi in range(0, len(BODY_ERROR_NAMES), 3):
            excs = (BODY_ERROR_NAMES + BODY_ERROR_NAMES)[gi:gi + 3]
            for rep in range(ctx.n(1, 8)):
                do("raising-methods-%s-%s-%d" % (head, "+".join(excs), rep), raising_methods(rng, rng.randint(3, 8), rand_chunks(rng), excs, head))
    for at in HOOKS:
        for stalls in (0, 1, 2):
            for rep in range(ctx.n(2, 10)):
                do("inner-issue-%s-%d-%d" % (at, stalls, rep), inner_issue(rng, at, stalls, rng.randint(1, 4), rand_chunks(rng)),
                   loopback=(rep % 4 == 3))
    for i in range(ctx.n(30, 300)):
        do("mixed-styles-%d" % i, mixed_styles(rng, rng.randint(1, 4), rand_chunks(rng)), loopback=(i % 3 == 2))
    for i in range(ctx.n(40, 400)):
        do("noisy-batch-%d" % i, noisy_batch(rng, rng.randint(1, 4)), loopback=(i % 4 != 3))
    # 3. random scripts
    for i in range(ctx.n(260, 6000)):
        n = rng.choice((8, 12, 16, 24, 32, 48))
        sc = rand_script(rng, n, gifts=rng.random() < 0.6, noise=rng.choice((0.0, 0.0, 0.1)), loss=(i % 5 == 4))
        r = do("random-%d" % i, sc)
        if i < 3:
            ctx.sample(dict(script=sc, entered=[[c for e, c in r["events"][d] if e == "entered"] for d in (0, 1)]))
    for i in range(ctx.n(80, 1500)):
        sc = rand_script(rng, rng.choice((8, 12, 16, 24, 32)), gifts=rng.random() < 0.5, noise=rng.choice((0.0, 0.15, 0.3)))
        do("loopback-random-%d" % i, sc, loopback=True)
    # 3b. real Tubs on the in-memory network, real third-party references (Tub.getReference to a third Tub)
    tubs_family(ctx, impl)
    # 3c. connections that start with a real negotiation
    fixed = [dict(master_is_client=True, n_first=2, n_later=1, seed=11), dict(master_is_client=False, n_first=3, n_later=0, seed=12, step=ctx.n(2, 1))]
    fn = os.path.join(CORPUS, "negotiated.json")
    if os.path.exists(fn):
        fixed = json.load(open(fn))["configs"]
        for c in fixed:
            if "step_quick" in c:
                c["step"] = ctx.n(c.pop("step_quick"), 1)
    negotiated_family(ctx, impl, fixed)
    # 3d. calls to the peer's Broker object (decref / decgift / getReferenceByName) mixed with application calls
    broker_calls_family(ctx, impl)
    # 4. correspondence
    model_ok = ok
    if not ok:
        model_ok, _ = ctx.coq_build(["lib/Order.vo"])
    if model_ok:
        correspond(ctx, runs)
        nested_correspond(ctx, runs)
        local_correspond(ctx, impl)
        unit_facts(ctx, impl)
        async_and_facts(ctx, impl)
        bytes_ok = ok
        if not ok:
            keep = dict(ctx.extra)
            bytes_ok, _ = ctx.coq_build(["lib/OrderBytes.vo"])
            ctx.extra.update({k: v for k, v in keep.items() if k in ("print_assumptions_closed", "coq_build_s")})
        if bytes_ok:
            packet_correspond(ctx, runs)
    else:
        ctx.note("model does not build: correspondence skipped")
    if not ok and len(ctx.failures) == before:
        ctx.fail("proof-broken", "theorem closure props/C04.vo no longer builds against the regenerated gen/OrderGen.v: "
                 + log[-2500:], replay=dict(log=log[-6000:]), has_input=False)
    elif not ok:
        ctx.note("proof broken AND a failing input was found (reported above)")
