"""Drives the real foolscap classes from /repo/src under a virtual clock, with
in-memory transports; no sockets, no threads, no wall-clock time.

Importing this module patches the module-level `reactor` names of foolscap with
one `task.Clock` (see DESIGN.md 1.4): nothing in /repo is edited.
"""
import datetime, io, os, sys, contextlib
from zope.interface import implementer
from twisted.internet import task, defer, interfaces
from twisted.python import failure
from twisted.internet.error import ConnectionDone, ConnectionLost

import foolscap.eventual as ev
import foolscap.negotiate as neg
import foolscap.connection as conn
import foolscap.banana as ban
import foolscap.reconnector as recon
import foolscap.pb as pb
from foolscap import broker
from foolscap.ipb import IConnectionHintHandler
from foolscap.referenceable import TubRef
from foolscap.api import Tub, Referenceable

clock = task.Clock()


class FakeTime:
    def time(self):
        return clock.seconds()


def install_clock():
    for m in (ev, neg, conn, ban, recon):
        m.reactor = clock
    ft = FakeTime()
    ban.time = ft
    neg.time = ft
    recon.time = ft
    conn.time = ft
    broker.time = ft
    neg.crypto.peerFromTransport = lambda transport: getattr(transport, "peer_cert", None)
    # the eventual-send queue object captured the real reactor? it looks the name up at call time.


install_clock()

# twisted prints "Unhandled Error" for log.err() when no observer is installed; swallow them but keep a tally
from twisted.python import log as _twlog
logged_errors = []


def _observer(ev_):
    if ev_.get("isError"):
        logged_errors.append(ev_)


_twlog.startLoggingWithObserver(_observer, setStdout=False)


def reset_clock():
    """fresh virtual time and an empty eventual queue"""
    global clock
    clock = task.Clock()
    install_clock()
    q = ev._theSimpleQueue
    q._events = []
    q._flushObservers = []
    q._timer = None


def turn(limit=100000):
    """run everything that is due *now* (eventual-sends), without advancing time"""
    for i in range(limit):
        if not any(dc.getTime() <= clock.seconds() for dc in clock.getDelayedCalls()):
            return
        clock.advance(0)
    raise RuntimeError("no quiescence")


# ---------------------------------------------------------------- certificates
PEMDIR = os.path.join(os.path.dirname(os.path.abspath(__file__)), "pems")


def make_pem():
    from cryptography import x509
    from cryptography.x509.oid import NameOID
    from cryptography.hazmat.primitives import hashes, serialization
    from cryptography.hazmat.primitives.asymmetric import ec
    key = ec.generate_private_key(ec.SECP256R1())
    name = x509.Name([x509.NameAttribute(NameOID.COMMON_NAME, u"newpb_thingy")])
    now = datetime.datetime(2020, 1, 1)
    cert = (x509.CertificateBuilder().subject_name(name).issuer_name(name).public_key(key.public_key())
            .serial_number(1).not_valid_before(now).not_valid_after(now + datetime.timedelta(days=36500))
            .sign(key, hashes.SHA256()))
    return key.private_bytes(serialization.Encoding.PEM, serialization.PrivateFormat.TraditionalOpenSSL,
                             serialization.NoEncryption()) + cert.public_bytes(serialization.Encoding.PEM)


def pem(i):
    """i-th pre-generated certificate (generated once, kept under harness/pems)"""
    os.makedirs(PEMDIR, exist_ok=True)
    p = os.path.join(PEMDIR, "tub%d.pem" % i)
    if not os.path.exists(p):
        with open(p, "wb") as f:
            f.write(make_pem())
    return open(p, "rb").read()


_tubid_cache = {}


def pems_sorted(n):
    """n certificates ordered by ascending tubID (so that index order = id order)"""
    out = []
    for i in range(n):
        data = pem(i)
        if i not in _tubid_cache:
            _tubid_cache[i] = Tub(certData=data).tubID
        out.append((_tubid_cache[i], data))
    out.sort()
    return out


# ---------------------------------------------------------------- broker pair on loopback
def broker_pair(params=None, **kw):
    from foolscap.test.common import Loopback
    tb = broker.Broker(TubRef("targetBroker"), **kw)
    cb = broker.Broker(TubRef("callingBroker"), **kw)
    t1 = Loopback(); t1.peer = cb; t1.protocol = tb; tb.transport = t1
    t2 = Loopback(); t2.peer = tb; t2.protocol = cb; cb.transport = t2
    tb.connectionMade(); cb.connectionMade()
    return tb, cb


# ---------------------------------------------------------------- in-memory network
class Addr:
    host = "fake"
    port = 0


class End:
    """one end of an in-memory connection; bytes written are queued on the Link"""

    def __init__(self, link, side):
        self.link = link
        self.side = side
        self.closed = False
        self.lost = False
        self.peer_cert = None
        self.protocol = None
        self.disconnecting = False

    def write(self, d):
        if not self.closed:
            self.link.q[self.side].append(bytes(d))

    def writeSequence(self, ds):
        for d in ds:
            self.write(d)

    def startTLS(self, ctx):
        pass

    def setTcpNoDelay(self, x):
        pass

    def getPeer(self):
        return broker.LoopbackAddress()

    def getHost(self):
        return broker.LoopbackAddress()

    def loseConnection(self, *a):
        if not self.closed:
            self.closed = True
            self.disconnecting = True
            self.link.q[self.side].append(None)  # FIN travels in order behind data
            self.link.pending_local_close.append(self)

    abortConnection = loseConnection


class Link:
    def __init__(self, net, name):
        self.q = {0: [], 1: []}
        self.ends = [End(self, 0), End(self, 1)]
        self.name = name
        self.pending_local_close = []
        net.links.append(self)

    def cut(self):
        """the network drops the connection: both ends see connectionLost, queued data is lost"""
        self.q = {0: [], 1: []}
        for e in self.ends:
            e.closed = True
            if e in self.pending_local_close:
                self.pending_local_close.remove(e)
        for e in self.ends:
            if e.protocol and not e.lost:
                e.lost = True
                e.protocol.connectionLost(failure.Failure(ConnectionLost()))


class Net:
    def __init__(self):
        self.links = []
        self.tubs = {}
        self.mangle = None      # optional fn(link, side, data) -> data, applied at delivery

    def deliverable(self):
        out = []
        for l in self.links:
            for side in (0, 1):
                if l.q[side]:
                    out.append((l, side))
            for e in l.pending_local_close:
                out.append((l, ("close", e)))
        return out

    def step(self, choice, nbytes=None):
        l, what = choice
        if isinstance(what, tuple):
            e = what[1]
            l.pending_local_close.remove(e)
            if e.protocol and not e.lost:
                e.lost = True
                e.protocol.connectionLost(failure.Failure(ConnectionDone()))
        else:
            d = l.q[what][0]
            if d is not None and nbytes is not None and nbytes < len(d):
                l.q[what][0] = d[nbytes:]
                d = d[:nbytes]
            else:
                l.q[what].pop(0)
            dst = l.ends[1 - what]
            if d is None:
                if not dst.lost:
                    dst.lost = True
                    dst.closed = True
                    dst.protocol.connectionLost(failure.Failure(ConnectionDone()))
            elif not dst.closed and not dst.lost:
                if self.mangle:
                    d = self.mangle(l, what, d)
                if d:
                    dst.protocol.dataReceived(d)
        turn()

    def run(self, rng=None, maxsteps=100000, chunk=None):
        n = 0
        while True:
            c = self.deliverable()
            if not c:
                return n
            ch = rng.choice(c) if rng else c[0]
            nb = None
            if chunk is not None:
                nb = chunk(rng) if callable(chunk) else chunk
            self.step(ch, nb)
            n += 1
            if n > maxsteps:
                raise RuntimeError("no quiescence")


@implementer(interfaces.IStreamClientEndpoint)
class FakeEndpoint:
    def __init__(self, net, target_tub):
        self.net = net
        self.t = target_tub

    def connect(self, factory):
        net = self.net
        link = Link(net, "L%d" % len(net.links))
        cend, send_ = link.ends
        pc = factory.buildProtocol(Addr())
        lst = self.t.getListeners()[0]
        ps = lst.buildProtocol(Addr())
        cend.protocol = pc
        send_.protocol = ps
        cend.peer_cert = getattr(self.t, "presented_cert", self.t.myCertificate)
        ctub = factory.tc.tub
        send_.peer_cert = getattr(ctub, "presented_cert", ctub.myCertificate)
        link.client_tub = ctub
        link.server_tub = self.t
        ps.makeConnection(send_)
        pc.makeConnection(cend)
        return defer.succeed(pc)


@implementer(IConnectionHintHandler)
class FakeHandler:
    def __init__(self, net):
        self.net = net

    def hint_to_endpoint(self, hint, reactor, update_status):
        name = hint.split(":")[1]
        return FakeEndpoint(self.net, self.net.tubs[name]), name


def make_tub(net, name, pemdata, negclass=None, hints=None):
    t = Tub(certData=pemdata)
    if negclass:
        t.negotiationClass = negclass
    t.removeAllConnectionHintHandlers()
    t.addConnectionHintHandler("fake", FakeHandler(net))
    l = pb.Listener.__new__(pb.Listener)   # a Listener without a real port
    l._tub = t
    l._test_options = {}
    l._redirects = {}
    l._negotiationClass = t.negotiationClass
    l._lp = None
    l._ep = "fake"
    t.listeners.append(l)
    t.setLocation(hints or "fake:%s:1" % name)
    t.startService()
    net.tubs[name] = t
    return t


@contextlib.contextmanager
def quiet():
    """foolscap prints tracebacks for some internal errors; keep the check's stdout clean"""
    with contextlib.redirect_stdout(io.StringIO()) as o, contextlib.redirect_stderr(io.StringIO()) as e:
        yield (o, e)
