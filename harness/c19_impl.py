"""C19 drivers of the real code: FileUploader.remote_putfile, IncidentObserver._got_incident / update_latest,
LogPublisher.remote_get_incident, save_service_data -- all in scratch directories under /verif/_build/C19 with a
sentinel sibling directory; os-level calls are recorded (and optionally made to raise) by wrapping."""
import builtins, bz2, errno, io, json, os, shutil, stat, sys

from twisted.internet import defer
from twisted.python import failure, filepath

from harness import common

ROOT = os.path.join(common.BUILD, "C19")


# ---------------------------------------------------------------------------
# scratch directories and snapshots

def fresh(tag):
    """-> (arena, target, sentinel).  arena/target is the configured directory, arena/sentinel a sibling that must
    never change, arena itself must never gain or lose an entry."""
    arena = os.path.join(ROOT, tag)
    if os.path.lexists(arena):
        shutil.rmtree(arena)
    os.makedirs(os.path.join(arena, "target"))
    os.makedirs(os.path.join(arena, "sentinel"))
    with open(os.path.join(arena, "sentinel", "victim"), "wb") as f:
        f.write(b"SENTINEL")
    os.chmod(os.path.join(arena, "sentinel", "victim"), 0o600)
    # a sibling that carries the configured directory's OWN name plus the temporary extension: what a name that denotes
    # the directory itself ("", ".", "x/..", "./") would open, truncate and finally unlink
    with open(os.path.join(arena, "target.partial"), "wb") as f:
        f.write(b"SIBLING-PARTIAL")
    return arena, os.path.join(arena, "target"), os.path.join(arena, "sentinel")


def snap(d):
    """canonical recursive listing: {relpath: ('f', content, mode) | ('l', linktarget) | ('d',)}"""
    out = {}
    for root, dirs, files in os.walk(d):
        for n in list(dirs) + files:
            p = os.path.join(root, n)
            rel = os.path.relpath(p, d)
            st = os.lstat(p)
            if stat.S_ISLNK(st.st_mode):
                out[rel] = ("l", os.readlink(p))
            elif stat.S_ISDIR(st.st_mode):
                out[rel] = ("d",)
            else:
                with open(p, "rb") as f:
                    out[rel] = ("f", f.read().hex(), st.st_mode & 0o777)
    return out


def outside_snapshot(arena, inside="target"):
    """everything in the arena except the configured directory's content"""
    s = {}
    for n in sorted(os.listdir(arena)):
        p = os.path.join(arena, n)
        if n == inside:
            s[n] = ("d",)
        elif os.path.isdir(p) and not os.path.islink(p):
            s[n] = ("d", snap(p))
        elif os.path.islink(p):
            s[n] = ("l", os.readlink(p))
        else:
            with open(p, "rb") as f:
                s[n] = ("f", f.read().hex())
    return s


# ---------------------------------------------------------------------------
# recording / fault injection at the os level

class Crash(Exception):
    """stands for the process dying at this point: raised from a wrapped os-level call"""


class Recorder:
    """records the file-system operations performed under `arena` as abstract ops and can raise Crash instead of
    performing the k-th one.  Ops: ('open', path, mode) ('write', path, nbytes) ('close', path) ('rename', a, b)
    ('chmod', path, mode) ('unlink', path)"""

    def __init__(self, arena, crash_at=None, fail_at=None, fail_errno=None, persistent=False, nest_at=None, nest_fn=None):
        self.arena = arena
        self.ops = []
        self.crash_at = crash_at
        self.saved = None
        self.dead = False
        self.crashed_on = None
        self.fail_at, self.fail_errno, self.persistent, self.failed_kind = fail_at, fail_errno, persistent, None
        self.nest_at, self.nest_fn, self.in_nested, self.nested_ops = nest_at, nest_fn, False, []
        self.attempts = 0
        self.files = []
        self.written = []       # data of every recorded write, in order

    def rel(self, p):
        if isinstance(p, bytes):
            p = os.fsdecode(p)
        p = os.path.abspath(p)
        return os.path.relpath(p, self.arena)

    def mine(self, p):
        try:
            if isinstance(p, bytes):
                p = os.fsdecode(p)
            return isinstance(p, str) and os.path.abspath(p).startswith(self.arena + os.sep)
        except Exception:
            return False

    def pre(self, op):
        """called before an operation is performed.
        crash_at=k: the process dies before its k-th operation and stays dead (no later operation is performed either);
        fail_at=k : the k-th attempted operation FAILS with OSError(fail_errno) and is not performed; the program goes
                    on (its exception handling runs); persistent=True: every later operation of the same kind fails too
                    (a directory that stays unwritable, a temporary that stays gone), else the fault is transient;
        nest_at=k : just before the k-th attempted operation a SECOND writer (nest_fn) runs to completion"""
        if self.in_nested:
            return
        idx = self.attempts
        self.attempts += 1
        if self.nest_at is not None and idx == self.nest_at:
            self.in_nested = True
            saved, self.ops = self.ops, self.nested_ops
            try:
                self.nest_fn()
            finally:
                self.ops = saved
                self.in_nested = False
        if self.fail_at is not None and not self.dead:
            if idx == self.fail_at or (self.persistent and self.failed_kind == op[0]):
                self.failed_kind = op[0]
                self.ops.append(("FAIL", errno.errorcode.get(self.fail_errno, "?")) + tuple(op))
                raise OSError(self.fail_errno, os.strerror(self.fail_errno), op[1])
        if self.dead or (self.crash_at is not None and len(self.ops) == self.crash_at):
            self.dead = True
            self.crashed_on = self.crashed_on or op
            raise Crash("injected at step %s: %r" % (self.crash_at, op))

    def hit(self, op):
        self.pre(op)
        self.ops.append(op)

    def cleanup(self):
        for f in self.files:
            try:
                f.close()
            except Exception:
                pass

    def __enter__(self):
        rec = self
        self.saved = (builtins.open, io.open, os.rename, os.chmod, os.unlink, os.remove, os.replace, bz2.open if hasattr(bz2, "open") else None)
        real_open = builtins.open

        class F:
            """file object proxy recording write/close"""

            def __init__(self, f, path):
                self._f = f
                self._p = path
                self._closed = False

            def write(self, data):
                op = ("write", rec.rel(self._p), len(data) if isinstance(data, (bytes, bytearray, str)) else -1)
                rec.pre(op)
                r = self._f.write(data)     # raises TypeError for a block that is not bytes: nothing reaches the OS then
                rec.ops.append(op)
                rec.written.append(bytes(data) if isinstance(data, (bytes, bytearray)) else data.encode())
                return r

            def close(self):
                if not self._closed:
                    rec.hit(("close", rec.rel(self._p)))
                    self._closed = True
                return self._f.close()

            def __getattr__(self, k):
                return getattr(self._f, k)

            def __enter__(self):
                return self

            def __exit__(self, *a):
                self.close()

            def __iter__(self):
                return iter(self._f)

        def w_open(file, mode="r", *a, **kw):
            if rec.mine(file) and any(c in mode for c in "wax+"):
                rec.pre(("open", rec.rel(file), mode))
                try:
                    fo = real_open(file, mode, *a, **kw)
                except BaseException as e:
                    rec.ops.append(("open-failed", rec.rel(file), type(e).__name__))
                    raise
                rec.ops.append(("open", rec.rel(file), mode))
                rec.files.append(fo)
                return F(fo, file)
            return real_open(file, mode, *a, **kw)

        def w_rename(a, b, *x, **kw):
            if rec.mine(a) or rec.mine(b):
                rec.hit(("rename", rec.rel(a), rec.rel(b)))
            return rec.saved[2](a, b, *x, **kw)

        def w_replace(a, b, *x, **kw):
            if rec.mine(a) or rec.mine(b):
                rec.hit(("rename", rec.rel(a), rec.rel(b)))
            return rec.saved[6](a, b, *x, **kw)

        def w_chmod(p, m, *x, **kw):
            if rec.mine(p):
                rec.hit(("chmod", rec.rel(p), m))
            return rec.saved[3](p, m, *x, **kw)

        def w_unlink(p, *x, **kw):
            if rec.mine(p):
                rec.hit(("unlink", rec.rel(p)))
            return rec.saved[4](p, *x, **kw)

        builtins.open = w_open
        io.open = w_open
        os.rename = w_rename
        os.replace = w_replace
        os.chmod = w_chmod
        os.unlink = w_unlink
        os.remove = w_unlink
        return self

    def __exit__(self, *a):
        builtins.open, io.open, os.rename, os.chmod, os.unlink, os.remove, os.replace = self.saved[:7]
        return False


# ---------------------------------------------------------------------------
# FileUploader

class Opt(dict):
    pass


class Src:
    """fake remote `source`: callRemote('read', n) answers the scripted blocks, then b'' (EOF); an Exception
    instance in the script is delivered as a failed Deferred (source error / DeadReferenceError on disconnect)"""

    def __init__(self, blocks):
        self.blocks = list(blocks)
        self.calls = 0

    def callRemote(self, name, *a):
        assert name == "read"
        self.calls += 1
        if not self.blocks:
            return defer.succeed(b"")
        b = self.blocks.pop(0)
        if isinstance(b, Exception):
            return defer.fail(failure.Failure(b))
        return defer.succeed(b)


def make_uploader(target, mode=0o644):
    from foolscap.appserver.services import FileUploader
    o = Opt(mode=mode)
    o.targetdir = target
    return FileUploader(os.path.dirname(target), None, o)


def putfile(fu, name, blocks, rec=None):
    """-> outcome string: 'ok' | 'raise:<Exc>' (synchronous) | 'fail:<Exc>' (Deferred errback)"""
    res = []
    try:
        if rec is not None:
            with rec:
                d = fu.remote_putfile(name, Src(blocks))
                d.addBoth(res.append)
        else:
            d = fu.remote_putfile(name, Src(blocks))
            d.addBoth(res.append)
    except Crash:
        return "crash"
    except BaseException as e:
        return "raise:" + type(e).__name__
    if not res:
        return "pending"
    r = res[0]
    if isinstance(r, failure.Failure):
        if r.check(Crash):
            return "crash"
        return "fail:" + r.type.__name__
    return "ok"


# ---------------------------------------------------------------------------
# IncidentObserver (gatherer side) and LogPublisher.remote_get_incident (publisher side)

class NullGatherer:
    def __init__(self):
        self.got = []

    def new_incident(self, abs_fn, rel_fn, tubid_s, incident):
        self.got.append((abs_fn, rel_fn))


def make_observer(basedir):
    from foolscap.logging.gatherer import IncidentObserver
    return IncidentObserver(basedir, "tubid", NullGatherer(), None, io.StringIO())


INCIDENT = ({"type": "incident", "trigger": {"num": 1, "message": "boom", "level": 30}, "versions": {}, "pid": 1},
            [{"num": 1, "message": "boom", "level": 30, "time": 1.0}])


def got_incident(obs, name):
    try:
        obs._got_incident(INCIDENT, name, INCIDENT[0]["trigger"])
        return "ok"
    except BaseException as e:
        return "raise:" + type(e).__name__


class FakeLogger:
    def __init__(self, logdir):
        self.logdir = logdir

    def setLogPort(self, lp):
        self.logport = lp


def make_publisher(logdir):
    from foolscap.logging.publish import LogPublisher
    return LogPublisher(FakeLogger(logdir))


def get_incident(pub, name, arena):
    """-> (outcome, [relative paths opened for reading under the arena]); get_incident.raw = the path strings as
    they were handed to the kernel"""
    opened = []
    raw = get_incident.raw = []
    real_open = builtins.open
    real_bz2 = bz2.BZ2File
    real_exists = os.path.exists

    def note(p):
        try:
            if isinstance(p, bytes):
                p = os.fsdecode(p)
            if isinstance(p, str):
                opened.append(os.path.relpath(os.path.abspath(p), arena))
                raw.append(p)
        except Exception:
            pass

    def w_open(file, *a, **kw):
        note(file)
        return real_open(file, *a, **kw)

    class W(real_bz2):
        def __init__(self, filename, *a, **kw):
            note(filename)
            real_bz2.__init__(self, filename, *a, **kw)

    builtins.open = w_open
    bz2.BZ2File = W
    try:
        try:
            r = pub.remote_get_incident(name)
            out = "ok:" + json.dumps(r[0].get("trigger", {}).get("message", None))
        except BaseException as e:
            out = "raise:" + type(e).__name__
    finally:
        builtins.open = real_open
        bz2.BZ2File = real_bz2
    return out, opened


def watch_reads(call):
    """-> (outcome, result, raw): runs call() and records every path string handed to open() / BZ2File while it runs"""
    raw = []
    real_open = builtins.open
    real_bz2 = bz2.BZ2File

    def note(p):
        try:
            if isinstance(p, bytes):
                p = os.fsdecode(p)
            if isinstance(p, str):
                raw.append(p)
        except Exception:
            pass

    def w_open(file, *a, **kw):
        note(file)
        return real_open(file, *a, **kw)

    class W(real_bz2):
        def __init__(self, filename, *a, **kw):
            note(filename)
            real_bz2.__init__(self, filename, *a, **kw)

    builtins.open = w_open
    bz2.BZ2File = W
    try:
        try:
            res = call()
            out = "ok"
        except BaseException as e:
            res, out = None, "raise:" + type(e).__name__
    finally:
        builtins.open = real_open
        bz2.BZ2File = real_bz2
    return out, res, raw


def list_incidents(pub, since):
    """LogPublisher.remote_list_incidents(since) -> (outcome, {name: trigger}, raw paths opened)"""
    return watch_reads(lambda: pub.remote_list_incidents(since))


class FakeObserver:
    def __init__(self):
        self.calls = []

    def callRemoteOnly(self, name, *a, **kw):
        self.calls.append((name, a))

    def callRemote(self, name, *a, **kw):
        self.calls.append((name, a))
        return defer.succeed(None)

    def notifyOnDisconnect(self, cb):
        return 1

    def dontNotifyOnDisconnect(self, m):
        pass


def catch_up(pub, since):
    """IncidentSubscription.catch_up(since) -> (outcome, [(name, trigger)] sent to the observer, raw paths opened)"""
    from foolscap.logging.publish import IncidentSubscription
    obs = FakeObserver()
    sub = IncidentSubscription(obs, pub._logger, pub)
    out, _, raw = watch_reads(lambda: sub.catch_up(since))
    return out, [a for n, a in obs.calls if n == "new_incident"], raw


class FakeRemotePublisher:
    def __init__(self):
        self.calls = []

    def callRemote(self, name, *a, **kw):
        self.calls.append((name, a, kw))
        return defer.succeed(None)


def connect(basedir):
    """IncidentObserver(basedir).connect() -> (outcome, the since= it sent to the publisher | None, raw paths opened)"""
    from foolscap.logging.gatherer import IncidentObserver
    rp = FakeRemotePublisher()
    obs = IncidentObserver(basedir, "tubid", NullGatherer(), rp, io.StringIO())
    out, _, raw = watch_reads(obs.connect)
    since = rp.calls[0][2].get("since") if rp.calls else None
    return out, since, raw


# ---------------------------------------------------------------------------
# save_service_data

def save_registry(basedir, data, rec=None):
    from foolscap.appserver.server import save_service_data
    try:
        if rec is not None:
            with rec:
                save_service_data(basedir, data)
        else:
            save_service_data(basedir, data)
        return "ok"
    except Crash:
        return "crash"
    except BaseException as e:
        return "raise:" + type(e).__name__


def load_registry(basedir):
    from foolscap.appserver.server import load_service_data
    return load_service_data(basedir)


# ---------------------------------------------------------------------------
# misc helpers

import contextlib


@contextlib.contextmanager
def quiet_logs():
    """nothing of what the drivers provoke (unhandled-error logs of failed Deferreds) belongs on the check's stdout"""
    from twisted.python import log as twlog
    obs = list(twlog.theLogPublisher.observers)
    for o in obs:
        twlog.removeObserver(o)
    try:
        yield
    finally:
        for o in obs:
            twlog.addObserver(o)


def wipe():
    if os.path.lexists(ROOT):
        shutil.rmtree(ROOT, ignore_errors=True)


class Opaque(object):
    pass


def source_error(kind):
    """what ends the block stream early: an Exception instance = read() fails (remote exception / disconnect);
    anything else = read() SUCCEEDS with a block that f.write() cannot take (no schema guards the 'read' call)"""
    if kind == "disconnect":
        from foolscap.ipb import DeadReferenceError
        return DeadReferenceError("connection was lost")
    if kind == "source":
        return ValueError("source failed")
    return {"str": u"text instead of bytes", "int": 7, "obj": Opaque(), "list": [1, 2], "float": 1.5}[kind]


BAD_BLOCK_KINDS = ["str", "int", "obj", "list", "float"]

# entries that already live in every service directory: names that are lexically ONE component after normalisation can
# still be physically different paths when their leading component is one of these
FURNITURE = dict(dlnk="incident-dlnk", sub="incident-sub", lnk="incident-lnk", file="incident-file")


def furnish(target):
    """-> model entries of the furniture [(abspath, ('F', content) | ('L', text) | ('D',))]"""
    j = lambda n: os.path.join(target, n)
    os.symlink("../sentinel", j(FURNITURE["dlnk"]))
    os.mkdir(j(FURNITURE["sub"]))
    write_incident(os.path.join(j(FURNITURE["sub"]), "inner.flog"), "inside-subdirectory")
    os.symlink("../sentinel/victim", j(FURNITURE["lnk"]))
    with open(j(FURNITURE["file"]), "wb") as f:
        f.write(b"FILE")
    return [(j(FURNITURE["dlnk"]), ("L", "../sentinel")), (j(FURNITURE["sub"]), ("D",)),
            (j(FURNITURE["lnk"]), ("L", "../sentinel/victim")), (j(FURNITURE["file"]), ("F", b"FILE"))]


def furniture_names():
    out = []
    for e in list(FURNITURE.values()) + ["nx"]:
        out += [e, e + "/", e + "/.", e + "//", e + "/./", e + "/../x", e + "/../incident-x", "./" + e + "/../x", e + "/./../x",
                e + "/../" + e + "/../x", e + "/x", e + "/inner", e + "/victim", e + "/..", e + "/../..", e + "/../../sentinel/x",
                e + "/../" + e, e + "/../" + e + "/"]
    return out


def write_incident(fn, msg, compress=False):
    from foolscap.logging import flogfile
    f = bz2.BZ2File(fn, "w") if compress else open(fn, "wb")
    f.write(flogfile.MAGIC)
    flogfile.serialize_raw_header(f, {"type": "incident", "trigger": {"message": msg, "num": 1, "level": 30}})
    flogfile.serialize_wrapper(f, {"num": 1, "message": msg, "level": 30, "time": 1.0}, from_="tubid", rx_time=2.0)
    f.close()


def list_incident_names(pub, since):
    try:
        return "ok", [(n, p) for (n, p) in pub.list_incident_names(since)]
    except BaseException as e:
        return "raise:" + type(e).__name__, []
