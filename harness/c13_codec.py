"""C13: correspondence of the TRANSLATED message codec (gen/NegCodecGen.v: parseLines, sendBlock), of the field parsing
(lib/NegCodec.v: py_int, ws_split), of the wire-level hello / decision evaluation (lib/NegWire.v) and of the phase machine with
the real Negotiation class: the same inputs go to the real methods and, through vm_compute, to the model."""
import re
from harness import common
from harness.common import coq_Z
import foolscap.negotiate as neg
from foolscap import vocab

REQ = ["Verif.lib.PyLite", "Verif.gen.NegotiateGen", "Verif.lib.Negotiate", "Verif.lib.NegCodec", "Verif.gen.NegCodecGen",
       "Verif.lib.NegSplit", "Verif.lib.NegWire"]

PRELUDE = """Local Open Scope Z_scope.
Definition rcode {T} (f : T -> list (list Z)) (r : res T) : (Z * list (list Z) * string) :=
  match r with Ok v => (0, f v, ""%string) | Exc t => (1, [], t) end.
Definition dcode (d : dict) : list (list Z) := flat_map (fun kv => [fst kv; snd kv]) d.
Definition hexd (d : Z) : Z := if d <? 10 then 48 + d else 87 + d.
Definition hex4 (n : Z) : list Z := [hexd ((n / 4096) mod 16); hexd ((n / 256) mod 16); hexd ((n / 16) mod 16); hexd (n mod 16)].
"""


def bl(b):
    return "[" + ";".join(str(x) for x in b) + "]"


PIECES = [b"a", b"b", b"K", b"Z", b":", b":", b" ", b"  ", b"\t", b"\r\n", b"\r\n", b"\r", b"\n", b"-", b"0", b"17", b"x" * 9,
          "\u00e9".encode(), "\u20ac".encode(), "\U0001F600".encode(), b"\xc0\x80", b"\xed\xa0\x80", b"\xf4\x90\x80\x80", b"\x80",
          b"\xff", b"\xe2\x82", b"\xf0\x9f\x98", b"\xe0\x9f\xbf", b"\xe0\xa0\x80", b"\xf0\x8f\xbf\xbf", b"\xf0\x90\x80\x80",
          b"\xed\x9f\xbf", b"\xf4\x8f\xbf\xbf", b"\xc2", b"\x0b", b"\x0c", b"\x1c", b"A:"]


def gen_header(r):
    kind = r.random()
    if kind < 0.45:
        # well-formed lines with a few mutations
        lines = []
        for _ in range(r.choice([0, 1, 1, 2, 3, 5])):
            k = bytes(r.choice(b"abcXY-z") for _ in range(r.choice([0, 1, 3, 8])))
            v = b"".join(r.choice(PIECES[:24]) for _ in range(r.choice([0, 1, 2, 4])))
            lines.append(k + r.choice([b":", b": ", b":  ", b" : ", b""]) + v)
        return b"\r\n".join(lines)
    return b"".join(r.choice(PIECES) for _ in range(r.choice([0, 1, 2, 3, 5, 8, 12])))


def real_parse(h):
    try:
        d = neg.Negotiation.parseLines(None, h)
    except Exception as e:
        return (1, [], type(e).__name__)
    return (0, [x for k in sorted(d, key=lambda s: s.encode()) for x in (list(k.encode()), list(d[k].encode()))], "")


class _Sink:
    def __init__(self):
        self.w = b""

    def write(self, d):
        self.w += d


class _S:
    def __init__(self):
        self.transport = _Sink()


def real_send(d):
    s = _S()
    try:
        neg.Negotiation.sendBlock(s, d)
    except Exception as e:
        return (1, [], type(e).__name__)
    return (0, [list(s.transport.w)], "")


def canon_dict(d):
    """python dict (str -> str) -> the model's canonical association list literal"""
    items = sorted(((k.encode(), v.encode()) for k, v in d.items()))
    return "[" + "; ".join("(%s, %s)" % (bl(k), bl(v)) for k, v in items) + "]"


INT_ALPHA = " \t\n\x0b\x0c\r\x1c\x1f+-_0123456789ax"


def codec(ctx):
    r = ctx.rng
    n = ctx.n(140, 3000)
    heads = [b"", b"a:b", b"a: b\r\nc:d", b"A: 1\r\na: 2", b"k:  v ", b"novalue", b":", b"a:\r\n", b"\r\n", b"a: \xff", b"\xc3\xa9: x",
             b"banana-decision-version: 1\r\nerror: go away", b"x: 1\r\n\r\ny: 2", b"a:b\rc", b"a:b\nc:d"]
    heads += [gen_header(r) for _ in range(n)]
    dicts = [{}, {"a": "b"}, {"b": "1", "a": "2"}, {"A": "x", "a": "y"}, {"k": ""}, {"error": "no  way", "banana-decision-version": "1"}]
    for _ in range(n // 4):
        d = {}
        for _ in range(r.choice([1, 2, 3, 4, 6])):
            k = "".join(r.choice("abcXYZ-09") for _ in range(r.choice([0, 1, 4, 12])))
            d[k] = "".join(r.choice(["a", " ", "7", ":", "\u00e9", "\u20ac", "-", "x" * 5, "\t"]) for _ in range(r.choice([0, 1, 3, 6])))
        dicts.append(d)
    ints = ["", "0", "7", "-7", "+7", " 12 ", "1_0", "_1", "1_", "1__0", "+-1", "- 1", "0012", "\n7\t", "3\x1f", "\x1c3", "12a", "4096", "-0",
            "99999999999999999999", "1 2", "+", "-", "_", "0_0", "1_2_3"]
    ints += ["".join(r.choice(INT_ALPHA) for _ in range(r.choice([1, 2, 3, 4, 6]))) for _ in range(n)]
    splits = ["", " ", "a", "a b", " a  b ", "a\tb\nc", "a\x1cb", "a\x1fb\x0cc", "1 abcd", "3 3", "0 1 2"]
    splits += ["".join(r.choice(" \t\n\x0b\x0c\r\x1c\x1d\x1e\x1fabc019") for _ in range(r.choice([1, 2, 4, 7, 10]))) for _ in range(n // 2)]
    body = PRELUDE + """
Definition heads : list (list Z) := [%s].
Eval vm_compute in map (fun h => rcode dcode (parseLines h)) heads.
Definition dicts : list dict := [%s].
Eval vm_compute in map (fun d => rcode (fun w => [w]) (sendBlock d)) dicts.
Definition ints : list (list Z) := [%s].
Eval vm_compute in map (fun s => match py_int s with Ok v => (0, v, ""%%string) | Exc t => (1, 0, t) end) ints.
Definition splits : list (list Z) := [%s].
Eval vm_compute in map ws_split splits.
""" % (";\n".join(bl(h) for h in heads), ";\n".join(canon_dict(d) for d in dicts),
       "; ".join(bl(s.encode()) for s in ints), "; ".join(bl(s.encode()) for s in splits))
    try:
        mp, ms, mi, msp = ctx.coq_eval("C13_codec", body, requires=REQ)
    except common.CoqEvalError as e:
        ctx.fail("correspondence-broken", "the translated codec could not be evaluated: " + str(e)[-1500:], has_input=False)
        return
    nbad = 0

    def bad(sig, what, replay):
        nonlocal nbad
        nbad += 1
        ctx.fail(sig, what, replay=replay, has_input=False)
    for h, m in zip(heads, mp):
        ctx.traces += 1
        rp = real_parse(h)
        ctx.case(["parseLines", list(h)], nontrivial=bool(h))
        ctx.hist("parseLines_outcome", rp[2] or "ok")
        if tuple(m) != rp and list(m) != list(rp):
            bad("correspondence/parseLines", "translated parseLines and Negotiation.parseLines disagree on %r: model %r, implementation %r" % (h, m, rp),
                dict(header=list(h)))
    for d, m in zip(dicts, ms):
        ctx.traces += 1
        rs = real_send(d)
        ctx.case(["sendBlock", sorted(d.items())], nontrivial=bool(d))
        if list(m) != list(rs):
            bad("correspondence/sendBlock", "translated sendBlock and Negotiation.sendBlock disagree on %r: model %r, implementation %r" % (d, m, rs),
                dict(block=sorted(d.items())))
        # round trip on the real code: what sendBlock writes is framed by the first terminator and parses back (lower-cased keys,
        # values without leading blanks) whenever no key / value holds CR, LF or (keys) a colon
        if d and rs[0] == 0 and all(not re.search(r"[\r\n:]", k) and k == k.lower() for k in d) and all(not re.search(r"[\r\n]", v) for v in d.values()) \
                and len({k.lower() for k in d}) == len(d):
            w = bytes(rs[1][0])
            eoh = w.find(b"\r\n\r\n")
            back = neg.Negotiation.parseLines(None, w[:eoh]) if eoh >= 0 else None
            want = {k: v.lstrip(" \t\n\r\x0b\x0c") for k, v in d.items()}
            if eoh != len(w) - 4 or back != want:
                ctx.fail("oracle/block-does-not-parse-back", "a block written by sendBlock is not read back by the splitter + parseLines: %r -> %r -> %r"
                         % (d, w, back), replay=dict(block=sorted(d.items())))
    for s, m in zip(ints, mi):
        ctx.traces += 1
        try:
            rv = (0, int(s), "")
        except Exception as e:
            rv = (1, 0, type(e).__name__)
        ctx.case(["int", s], nontrivial=True)
        if list(m) != list(rv):
            bad("correspondence/int", "the model of int() disagrees with Python on %r: model %r, python %r" % (s, m, rv), dict(text=s))
    for s, m in zip(splits, msp):
        ctx.traces += 1
        rv = [list(x.encode()) for x in s.split()]
        ctx.case(["split", s], nontrivial=True)
        if m != rv:
            bad("correspondence/str-split", "the model of str.split() disagrees with Python on %r: model %r, python %r" % (s, m, rv), dict(text=s))
    ctx.extra["codec_cases"] = len(heads) + len(dicts) + len(ints) + len(splits)
    ctx.extra["codec_disagreements"] = nbad


# ---------------------------------------------------------------------------------------------------------------
# wire-level evaluation of a hello / a decision on the REAL class (handleENCRYPTED -> evaluateHello; acceptDecision)
class _Tr:
    peer_cert = None

    def __init__(self):
        self.w = b""

    def write(self, d):
        self.w += d


class _TubRef:
    def getTubID(self):
        return "peer"


class _Tub:
    def __init__(self):
        self.brokers = {}
        self.slave_table = {}
        self.master_table = {}


def real_hello(N, header):
    class P(N):
        def _ev(self, offer):
            return None
    for v in range(1, 9):
        if hasattr(N, "evaluateNegotiationVersion%d" % v):
            setattr(P, "evaluateNegotiationVersion%d" % v, P._ev)
    p = P()
    p.isClient = False
    p.transport = _Tr()
    try:
        p.handleENCRYPTED(header)
    except Exception as e:
        return (1, 0, type(e).__name__)
    return (0, p.decision_version, "")


def real_accept(N, header):
    p = N()
    p.isClient = False
    p.transport = _Tr()
    p.tub = _Tub()
    p.theirTubRef = _TubRef()
    try:
        params = p.acceptDecision(p.parseLines(header))
    except Exception as e:
        return (1, [], type(e).__name__)
    if p.tub.brokers or p.tub.master_table:
        return (2, [], "tub tables touched")
    return (0, [params["banana-decision-version"], params["initial-vocab-table-index"]], "")


def hashnum(i):
    return int(vocab.hashVocabTable(i), 16)


def ep_lit(idn, r, accepts):
    acc = "(fun v => existsb (Z.eqb v) [%s])" % "; ".join(str(v) for v in accepts)
    hs = "(fun i => if i =? 0 then %d else if i =? 1 then %d else 0)" % (hashnum(0), hashnum(1))
    return "(Build_endpoint %s %s %s %s %s %s %s)" % (bl(idn), coq_Z(r[0]), coq_Z(r[1]), coq_Z(r[2]), coq_Z(r[3]), hs, acc)


def wire(ctx):
    from harness import c13_impl as impl
    r = ctx.rng
    n = ctx.n(70, 2000)
    ranges = [(1, 3, 0, 1), (3, 3, 0, 1), (2, 3, 1, 1), (1, 2, 0, 0), (3, 4, 0, 1), (1, 1, 0, 0)]
    hello_cases, acc_cases = [], []
    h1 = vocab.hashVocabTable(1).encode()

    def field(good):
        return r.choice([good, good, good, b"x y", b"3", b"", b"2 3 4", b" 1  2 ", b"1\t3", b"-1 5", b"+2 +3", b"1_0 2", b"3 2", b"0 99", b"a",
                         b"1 \xc3\xa9", b"7 7", b"4 9", b"1\x1c3"])
    for i in range(n):
        rg = r.choice(ranges)
        lines = []
        if r.random() < 0.9:
            lines.append(b"banana-negotiation-range: " + field(b"%d %d" % (r.choice([1, 2, 3]), r.choice([1, 2, 3, 4, 5]))))
        if r.random() < 0.8:
            lines.append(b"initial-vocab-table-range: " + field(b"0 1"))
        if r.random() < 0.8:
            lines.append(b"my-tub-id: abc")
        if r.random() < 0.08:
            lines.append(b"error: no")
        if r.random() < 0.05:
            lines.append(b"banana-negotiation-version: 1")
        if r.random() < 0.05:
            lines.append(r.choice([b"junk", b"Banana-Negotiation-Range: 2 2", b"\xff: 1"]))
        r.shuffle(lines)
        hello_cases.append((rg, b"\r\n".join(lines)))
    for i in range(n):
        rg = r.choice(ranges)
        lines = []
        if r.random() < 0.92:
            lines.append(b"banana-decision-version: " + r.choice([b"3", b"3", b"2", b"1", b"4", b"5", b"99", b"zz", b"", b" 3", b"3 ", b"0", b"-1", b"03", b"3_0"]))
        if r.random() < 0.9:
            lines.append(b"initial-vocab-table-index: " + r.choice([b"1 " + h1, b"1 " + h1, b"0 x", b"0 " + h1, b"1 ffff", b"1 " + h1.upper(), b"2 " + h1, b"-1 a",
                                                                     b"1", b"0", b"", b"1 a b", b"x " + h1, b"1  " + h1 + b" ", b"01 " + h1, b"1\t" + h1, b"7 7"]))
        if r.random() < 0.5:
            lines.append(b"current-connection: abcdef 3")
        if r.random() < 0.08:
            lines.append(b"error: refused")
        r.shuffle(lines)
        acc_cases.append((rg, b"\r\n".join(lines)))
    body = PRELUDE + """
Definition hcases : list (endpoint * list Z) := [%s].
Eval vm_compute in map (fun c => match bind (parseLines (snd c)) (eval_hello_wire (fst c)) with Ok v => (0, v, ""%%string) | Exc t => (1, 0, t) end) hcases.
Definition acases : list (endpoint * list Z) := [%s].
Eval vm_compute in map (fun c => match bind (parseLines (snd c)) (accept_wire hex4 (fst c)) with
                                 | Ok p => (0, [p_version p; p_vocab p], ""%%string) | Exc t => (1, [], t) end) acases.
""" % (";\n".join("(%s, %s)" % (ep_lit(b"me", rg, range(1, max(3, rg[1]) + 1)), bl(h)) for rg, h in hello_cases),
       ";\n".join("(%s, %s)" % (ep_lit(b"me", rg, range(1, max(3, rg[1]) + 1)), bl(h)) for rg, h in acc_cases))
    try:
        mh, ma = ctx.coq_eval("C13_wire", body, requires=REQ)
    except common.CoqEvalError as e:
        ctx.fail("correspondence-broken", "the wire-level model could not be evaluated: " + str(e)[-1500:], has_input=False)
        return
    nbad = nabst = 0
    with impl.quiet():
        for (rg, h), m in zip(hello_cases, mh):
            ctx.traces += 1
            rv = real_hello(impl.mkneg(rg), h)
            ctx.case(["hello", rg, list(h)], nontrivial=True)
            ctx.hist("hello_outcome", rv[2] or "ok")
            if m[2].startswith("NotModelled"):
                nabst += 1
                continue
            if list(m) != list(rv):
                nbad += 1
                ctx.fail("correspondence/evaluate-hello", "wire-level model and handleENCRYPTED/evaluateHello disagree: range %r header %r: model %r, implementation %r"
                         % (rg, h, m, rv), replay=dict(range=rg, header=list(h)), has_input=False)
        for (rg, h), m in zip(acc_cases, ma):
            ctx.traces += 1
            rv = real_accept(impl.mkneg(rg), h)
            ctx.case(["accept", rg, list(h)], nontrivial=True)
            ctx.hist("accept_outcome", rv[2] or "ok")
            if rv[0] == 2:
                ctx.fail("oracle/malformed-attempt-disturbs-established-connection", "acceptDecision touched the Tub's connection tables while refusing / before "
                         "accepting %r" % (h,), replay=dict(range=rg, header=list(h)))
                continue
            if m[2].startswith("NotModelled"):
                nabst += 1
                continue
            if list(m) != list(rv):
                nbad += 1
                ctx.fail("correspondence/accept-decision", "wire-level model and acceptDecision disagree: range %r block %r: model %r, implementation %r"
                         % (rg, h, m, rv), replay=dict(range=rg, header=list(h)), has_input=False)
    ctx.extra["wire_cases"] = len(hello_cases) + len(acc_cases)
    ctx.extra["wire_disagreements"] = nbad
    ctx.extra["wire_model_abstains_non_ascii"] = nabst


# ---------------------------------------------------------------------------------------------------------------
# direct oracle on the real block reader (independent of the Coq build, so it also speaks when the translator refuses the source)
def spec_refuses(h):
    """the block format: lines separated by CRLF, each 'key: value' (the FIRST colon separates), text is UTF-8.
    A block with a line that has no separator, or that is not text, is malformed."""
    for line in h.split(b"\r\n"):
        if b":" not in line:
            return "a line without the key/value separator: %r" % (line,)
        try:
            line.decode("utf-8")
        except UnicodeDecodeError:
            return "a line that is not UTF-8 text: %r" % (line,)
    return None


PARSE_WITNESSES = [b"novalue", b"a: b\r\nnovalue", b"novalue\r\na: b", b"a: b\r\nnovalue\r\nc: d", b"", b"a: b\r\n", b"\r\na: b", b"a b", b"a=b",
                   b"banana-decision-version: 3\r\ninitial-vocab-table-index 1 bb33", b"banana-decision-version 3\r\ninitial-vocab-table-index: 1 bb33",
                   b"banana-decision-version: 3\r\ncurrent-connection abc 1\r\ninitial-vocab-table-index: 1 bb33",
                   b"banana-negotiation-range: 3 3\r\ninitial-vocab-table-range 0 1\r\nmy-tub-id: abc", b"banana-negotiation-range 3 3\r\nmy-tub-id: abc",
                   b"error go away", b"a: \xff", b"\xff\xfe: b", b"a: b\r\n\xc3: c"]


def parse_oracle(ctx):
    """'Malformed ... negotiation input only ever ends that connection attempt', at the reader: Negotiation.parseLines must REFUSE (raise, which
    dataReceived turns into report-and-drop) every block that has a line without the separator or undecodable text -- it must not skip or
    reinterpret the line, because every key has a default that would then silently apply."""
    from harness import c13_impl as impl
    r = ctx.rng
    heads = list(PARSE_WITNESSES)
    # every block of a real negotiation with every line damaged in turn
    with impl.quiet():
        blocks = impl.recorded_blocks((1, 3, 0, 1), True)
    for blk in blocks:
        for i in range(len(blk)):
            k, v = blk[i]
            for dname, dfn in impl.LINE_DAMAGE:
                d2 = dfn(k, v)
                if d2 is None:
                    continue
                lines = [a + b": " + b for (a, b) in blk]
                lines[i] = d2[:-2]
                heads.append(b"\r\n".join(lines))
    for _ in range(ctx.n(60, 3000)):
        heads.append(gen_header(r))
    nref = 0
    for h in heads:
        why = spec_refuses(h)
        ctx.case(["parse-oracle", list(h)], nontrivial=bool(h))
        ctx.hist("parse_oracle", "malformed" if why else "well-formed")
        if not why:
            continue
        nref += 1
        try:
            d = neg.Negotiation.parseLines(None, h)
        except Exception:
            continue
        ctx.fail("oracle/malformed-block-parsed", "Negotiation.parseLines accepts a malformed block (%s): %r -> %r" % (why, h, d),
                 replay=dict(header=list(h), parsed=repr(d)))
    ctx.extra["parse_oracle_malformed_blocks"] = nref
