"""C08, third-party gifts (not in the Coq model): three real Tubs on the in-memory network.
A owns object x; B holds a proxy of x and hands it to C, several times and nested in a list; after introduction C must
hold ONE proxy (while it holds it) that designates A's original x: calls through it reach x, and sending it home to A
yields x itself."""
import gc
from harness import implenv as E
from harness.implenv import Net, make_tub, pems_sorted, quiet, Referenceable


class Obj(Referenceable):
    def __init__(self):
        self.pings = 0
        self.got = []

    def remote_ping(self):
        self.pings += 1
        return self.pings

    def remote_take(self, x):
        self.got.append(x)
        return len(self.got)


def settle(net, res=None, n=1):
    for i in range(6):
        E.turn()
        net.run()
        if res is None or len(res) >= n:
            break
        E.clock.advance(1)


def scenario(order):
    """order: permutation index deciding which Tub plays A, B, C (tub ids differ, so master/slave roles differ)"""
    E.reset_clock()
    net = Net()
    pems = [p for _, p in pems_sorted(3)]
    names = ["a", "b", "c"]
    tubs = {}
    for role, idx in zip(names, order):
        tubs[role] = make_tub(net, role, pems[idx])
    A, B, C = tubs["a"], tubs["b"], tubs["c"]
    x, y = Obj(), Obj()
    csink = Obj()
    fx, fy = A.registerReference(x), A.registerReference(y)
    fc = C.registerReference(csink)
    got = {}
    B.getReference(fx).addCallback(lambda r: got.setdefault("x", r))
    B.getReference(fy).addCallback(lambda r: got.setdefault("y", r))
    B.getReference(fc).addCallback(lambda r: got.setdefault("c", r))
    settle(net)
    problems = []
    if set(got) != {"x", "y", "c"}:
        return [("oracle/gift-setup-failed", "B could not obtain its references: %r" % (sorted(got),))], 0
    res = []
    got["c"].callRemote("take", got["x"]).addBoth(res.append)
    settle(net, res, 1)
    got["c"].callRemote("take", [got["x"], got["y"], got["x"]]).addBoth(res.append)
    settle(net, res, 2)
    got["c"].callRemote("take", got["x"]).addBoth(res.append)
    settle(net, res, 3)
    if res != [1, 2, 3]:
        problems.append(("oracle/gift-not-delivered", "calls carrying gifts returned %r" % ([getattr(r, "type", r) for r in res],)))
        return problems, 0
    g1, (g2, gy, g3), g4 = csink.got
    from foolscap.referenceable import RemoteReference
    if not all(isinstance(g, RemoteReference) for g in (g1, g2, g3, g4, gy)):
        problems.append(("oracle/gift-identity-lost", "gifts arrived as %r" % (csink.got,)))
        return problems, 0
    if not (g1 is g2 is g3 is g4):
        problems.append(("oracle/gift-different-proxy-while-held", "the same gift arrived as different proxies while held: %r"
                         % ([id(g) for g in (g1, g2, g3, g4)],)))
    if gy is g1:
        problems.append(("oracle/proxy-shared-by-objects", "gifts of two different objects arrived as one proxy"))
    # calls through the gift reach the original objects
    out = []
    g1.callRemote("ping").addBoth(out.append)
    gy.callRemote("ping").addBoth(out.append)
    settle(net, out, 2)
    if (x.pings, y.pings) != (1, 1):
        problems.append(("oracle/call-misrouted", "calls through gifts of x and y reached x %d times, y %d times (results %r)"
                         % (x.pings, y.pings, [getattr(r, "type", r) for r in out])))
    # the gift sent home to A arrives as the original
    out2 = []
    gy.callRemote("take", g1).addBoth(out2.append)
    settle(net, out2, 1)
    if len(y.got) != 1 or y.got[0] is not x:
        problems.append(("oracle/home-not-original", "C's gift proxy of x sent to A arrived as %r" % (y.got,)))
    # C's proxy and B's proxy are different objects in different Tubs but B sending it again after C dropped it works
    del g1, g2, g3, g4
    del csink.got[:]
    gc.collect()
    settle(net)
    res2 = []
    got["c"].callRemote("take", got["x"]).addBoth(res2.append)
    settle(net, res2, 1)
    if len(csink.got) != 1 or not isinstance(csink.got[0], RemoteReference):
        problems.append(("oracle/gift-not-delivered", "gift sent again after the recipient dropped it: %r %r" % (res2, csink.got)))
    else:
        out3 = []
        csink.got[0].callRemote("ping").addBoth(out3.append)
        settle(net, out3, 1)
        if x.pings != 2:
            problems.append(("oracle/call-misrouted", "call through the re-sent gift did not reach x: %r" % (out3,)))
    for t in (A, B, C):
        t.stopService()
    E.turn()
    return problems, 1


# ------------------------------------------------------------------------------------------------------------
# KNOWN FINDING oracle/gift-not-delivered/tracker-recreated-without-url, replayed on three real Tubs.  Model: RefsProofs.urlless_ops /
# live_proxy_without_url (two-party) + GiftsProofs.all_introductions_faithful_refuted (three-party), composed in
# GiftsCompose.gift_of_recreated_proxy_refuted.  The owner A sends the interface name and the FURL only with the FIRST
# my-reference of an object (refcount == 1).  History on the connection A -> B:
#   Send x; RecvOH; DropProxy 0; HandleRefLost; Send x; RecvHO; RecvOH; DropProxy 1; HandleRefLost; RecvOH; Send x; RecvOH
# B's tracker is freed by the answer to decref #1 while A still counts the reference of send #2 (decref #2 is under way), so
# send #3 is not a first one and the tracker B re-creates for it has url None: the live proxy works for calls but cannot be
# handed to a third party.
URLLESS_SIG = "oracle/gift-not-delivered/tracker-recreated-without-url"


def urlless_witness():
    """-> (problems, state reached?)"""
    from foolscap.referenceable import RemoteReference
    E.reset_clock()
    net = Net()
    pems = [p for _, p in pems_sorted(3)]
    A, B, C = make_tub(net, "a", pems[0]), make_tub(net, "b", pems[1]), make_tub(net, "c", pems[2])
    x = Obj()
    btarget, csink = Obj(), Obj()
    fb, fc = B.registerReference(btarget), C.registerReference(csink)
    got = {}
    A.getReference(fb).addCallback(lambda r: got.setdefault("bt", r))
    B.getReference(fc).addCallback(lambda r: got.setdefault("cs", r))
    settle(net)
    if set(got) != {"bt", "cs"}:
        return [("oracle/gift-setup-failed", "url-less witness: setup failed: %r" % (sorted(got),))], False
    rr = got["bt"]
    brokerA = rr.tracker.broker
    link = brokerA.transport.link
    sA = brokerA.transport.side
    sB = 1 - sA
    Bb = [b for b in B.brokers.values() if b.transport.link is link][0]

    def deliver(side, n=None):
        for i in range(len(link.q[side]) if n is None else n):
            net.step((link, side))

    rr.callRemoteOnly("take", x); E.turn(); deliver(sA)                       # Send x; RecvOH
    if len(btarget.got) != 1 or not isinstance(btarget.got[0], RemoteReference):
        return [("oracle/gift-setup-failed", "url-less witness: first send delivered %r" % (btarget.got,))], False
    clid = btarget.got[0].tracker.clid
    first_url = btarget.got[0].tracker.url
    del btarget.got[:]; gc.collect(); E.turn()                                # DropProxy 0; HandleRefLost (decref #1 queued)
    rr.callRemoteOnly("take", x); E.turn(); n2 = len(link.q[sA])             # Send x (not first)
    deliver(sB)                                                               # RecvHO: A processes decref #1, answer queued behind send #2
    deliver(sA, n2)                                                           # RecvOH: my-reference #2, the tracker is still there
    del btarget.got[:]; gc.collect(); E.turn()                                # DropProxy 1; HandleRefLost (decref #2 queued)
    deliver(sA)                                                               # RecvOH: answer #1 -> the tracker is forgotten
    reached = clid not in Bb.yourReferenceByCLID and brokerA.myReferenceByCLID.get(clid) is not None
    rr.callRemoteOnly("take", x); E.turn(); deliver(sA)                       # Send x (refcount 1 -> 2: not first); RecvOH
    if not btarget.got or not isinstance(btarget.got[-1], RemoteReference):
        return [("oracle/not-delivered", "url-less witness: the third send delivered %r" % (btarget.got,))], reached
    p3 = btarget.got[-1]
    has_url = p3.tracker.url is not None
    deliver(sB); deliver(sA)
    settle(net)
    problems = []
    out = []
    p3.callRemote("ping").addBoth(out.append)
    settle(net, out, 1)
    if out != [1] or x.pings != 1:
        problems.append(("oracle/call-misrouted", "url-less witness: a call through the re-created proxy returned %r (object reached %d times)"
                         % ([getattr(r, "value", r) for r in out], x.pings)))
    res = []
    got["cs"].callRemote("take", p3).addBoth(res.append)
    for i in range(8):
        settle(net, res, 1)
        if res:
            break
        E.clock.advance(1)
    ok = res == [1] and len(csink.got) == 1 and isinstance(csink.got[0], RemoteReference)
    if ok:
        out2 = []
        csink.got[0].callRemote("ping").addBoth(out2.append)
        settle(net, out2, 1)
        if x.pings != 2:
            problems.append(("oracle/call-misrouted", "url-less witness: the third party's proxy did not reach the original: %r" % (out2,)))
    else:
        why = [str(getattr(r, "type", r)) for r in res]
        problems.append((URLLESS_SIG if not has_url else "oracle/gift-not-delivered",
                         "A sends x to B three times, B's proxy dropped after the first and second delivery, the answer to B's first decref "
                         "arrives after B's second decref went out and before the third my-reference: B's tracker is re-created %s "
                         "(the first delivery's tracker had %s); B holds a live proxy of x (a call through it reached x: %r) and hands "
                         "it to the third party C: the call carrying it ended with %r, C received %r"
                         % ("WITHOUT a FURL" if not has_url else "with a FURL", "one" if first_url else "none", out == [1], why, csink.got)))
    for t in (A, B, C):
        t.stopService()
    E.turn()
    return problems, (reached and not has_url)


# ------------------------------------------------------------------------------------------------------------
# FAMILY regift: the holder B drops its only proxy of A's x and RE-RECEIVES x while the decref / its answer are under way at every
# position (decref reaches A before / after the re-send was written; the answer reaches B before / after the new my-reference;
# the gift made before / after either), then gives the re-received proxy to a third Tub C.  Script letters, all on the
# connection A<->B except G:  S = A sends x (callRemoteOnly), O = B receives A's oldest message (my-reference or decref answer),
# H = A receives B's oldest message (a decref), D = B drops every proxy + _handleRefLost, G = B gives its proxy to C (the link
# A<->B stays frozen while the introduction runs).  The oracle is the property: the call carrying the gift completes, C holds a
# proxy, a call through it reaches x.  regift_model() replays the script on the counters of lib/Refs.v (owner refcount, holder
# received_count, tracker present, FURL known only from a FIRST my-reference) and tells whether the history is the LISTED one
# (tracker really freed, then re-created by a non-first my-reference): only then the listed signature is used.
REGIFT_WITNESSES = [
    "SODSOGHO",        # the re-send is written and arrives before the decref reaches A; gift while decref and answer are under way
    "SODSHOGO",        # decref reaches A after the re-send was written; gift between the my-reference and the answer
    "SODSHOOG",        # ... gift after the answer
    "SODSOHOG",        # my-reference first, then decref, answer, gift
    "SODHSOOG",        # decref reaches A BEFORE the re-send: a first send again (new clid), answer and my-reference in order
    "SODHOSOG",        # everything settled before the re-send
    "SODSODSOGHHOO",   # two drops, both decrefs under way, the tracker never freed
    "SODSOHDOSOG",     # second drop after the first decref was processed; answer #1 arrives with received_count 0 ... (model decides)
]


def regift_model(script, need_gift=True):
    """-> (valid?, listed history at the gift?)  counters only"""
    a_ref, gen = 0, 0
    track = {}          # generation -> dict(cnt, url)
    proxy = None        # generation of the live proxy
    qo, qh = [], []
    listed = None
    for ch in script:
        if ch == "S":
            a_ref += 1
            qo.append(("my", gen, a_ref == 1))
        elif ch == "O":
            if not qo:
                return False, None
            m = qo.pop(0)
            if m[0] == "my":
                t = track.get(m[1])
                if t is None:
                    t = track[m[1]] = dict(cnt=0, url=m[2])
                t["cnt"] += 1
                proxy = m[1]
            else:
                t = track.get(m[1])
                if t is not None and t["cnt"] == 0:
                    del track[m[1]]
        elif ch == "H":
            if not qh:
                return False, None
            g, n = qh.pop(0)
            if g == gen:
                a_ref -= n
                if a_ref == 0:
                    gen += 1
            qo.append(("ack", g))
        elif ch == "D":
            if proxy is None:
                return False, None
            t = track[proxy]
            qh.append((proxy, t["cnt"]))
            t["cnt"] = 0
            proxy = None
        elif ch == "G":
            if proxy is None or listed is not None:
                return False, None
            listed = not track[proxy]["url"]
    return (listed is not None or not need_gift), listed


def regift_scenario(script):
    """-> (problems, nontrivial?, label)"""
    from foolscap.referenceable import RemoteReference
    valid, listed = regift_model(script)
    if not valid:
        return [], False, "invalid"
    E.reset_clock()
    net = Net()
    pems = [p for _, p in pems_sorted(3)]
    A, B, C = make_tub(net, "a", pems[0]), make_tub(net, "b", pems[1]), make_tub(net, "c", pems[2])
    x = Obj()
    btarget, csink = Obj(), Obj()
    fb, fc = B.registerReference(btarget), C.registerReference(csink)
    got = {}
    A.getReference(fb).addCallback(lambda r: got.setdefault("bt", r))
    B.getReference(fc).addCallback(lambda r: got.setdefault("cs", r))
    settle(net)
    if set(got) != {"bt", "cs"}:
        return [("oracle/gift-setup-failed", "regift: setup failed: %r" % (sorted(got),))], False, "setup"
    rr = got["bt"]
    link = rr.tracker.broker.transport.link
    sA = rr.tracker.broker.transport.side
    sB = 1 - sA
    run_net(net)
    fifo = {sA: [], sB: []}

    def account():
        E.turn()
        for side in (sA, sB):
            d = len(link.q[side]) - sum(fifo[side])
            if d > 0:
                fifo[side].append(d)

    def deliver(side):
        if not fifo[side]:
            return False
        for i in range(fifo[side].pop(0)):
            net.step((link, side))
        return True

    problems = []
    res = []
    raced = False
    for pos, ch in enumerate(script):
        if ch == "S":
            rr.callRemoteOnly("take", x)
        elif ch == "O":
            if not deliver(sA):
                return [("oracle/not-delivered", "regift %s: nothing to deliver to the holder at step %d (the model expects a message)"
                         % (script, pos))], False, "desync"
        elif ch == "H":
            if not deliver(sB):
                return [("oracle/not-delivered", "regift %s: no decref under way at step %d (the model expects one)" % (script, pos))], False, "desync"
        elif ch == "D":
            del btarget.got[:]
            gc.collect()
        elif ch == "G":
            if not btarget.got or not isinstance(btarget.got[-1], RemoteReference):
                return [("oracle/not-delivered", "regift %s: the holder has no proxy at step %d: %r" % (script, pos, btarget.got))], False, "desync"
            raced = bool(fifo[sA] or fifo[sB])
            got["cs"].callRemote("take", btarget.got[-1]).addBoth(res.append)
            account()
            run_net(net, lambda l: l is link)
        account()
    # everything settles
    for i in range(8):
        run_net(net)
        if res:
            break
        E.clock.advance(1)
    ok = res == [1] and len(csink.got) == 1 and isinstance(csink.got[0], RemoteReference)
    label = "delivered"
    if ok:
        before = x.pings
        out2 = _call(net, csink.got[0], "ping")
        if x.pings != before + 1:
            problems.append(("oracle/call-misrouted", "regift %s: a call through the third party's proxy did not reach the original "
                             "object: %r" % (script, getattr(out2, "value", out2))))
    else:
        why = [str(getattr(r, "type", r)) for r in res]
        if listed:
            label = "listed-history"        # reported by urlless_witness (same history class); not reported again
        else:
            label = "not-delivered"
            problems.append(("oracle/gift-not-delivered",
                             "A sends x to B, B drops its only proxy and re-receives x with the decref / its answer under way, then gives the "
                             "re-received proxy to the third party C (script %s: S=A sends x, O=B receives A's oldest message, H=A receives "
                             "B's decref, D=B drops its proxies, G=gift): the holder's tracker was never freed without a first "
                             "my-reference following (model: FURL known), yet the call carrying the gift ended with %r and C received %r"
                             % (script, why, csink.got)))
    if btarget.got and isinstance(btarget.got[-1], RemoteReference):
        before = x.pings
        out = _call(net, btarget.got[-1], "ping")
        if x.pings != before + 1:
            problems.append(("oracle/call-misrouted", "regift %s: a call through the holder's re-received proxy did not reach the "
                             "original object: %r" % (script, getattr(out, "value", out))))
    for t in (A, B, C):
        t.stopService()
    E.turn()
    return problems, raced or "D" in script, label


def regift_scripts(rng, n):
    """random executable scripts with exactly one gift and at least one drop"""
    def executable(t):
        return regift_model(t, need_gift=False)[0]
    out = []
    while len(out) < n:
        s = "SO"
        for i in range(rng.randint(4, 12)):
            ch = rng.choice("SSOOHHDDG")
            if (ch == "S" and s.count("S") >= 4) or (ch == "G" and "G" in s) or not executable(s + ch):
                continue
            s += ch
        if "G" not in s:
            for k in range(1, 8):
                if regift_model(s + "S" + "O" * k + "G")[0]:
                    s += "S" + "O" * k + "G"
                    break
            else:
                continue
        if regift_model(s)[0] and "D" in s[:s.index("G")]:
            out.append(s)
    return out


def regift(ctx):
    import random
    rng = random.Random(ctx.seed * 7919 + 8)
    scripts = list(REGIFT_WITNESSES) + regift_scripts(rng, 40 if ctx.tier == "quick" else 600)
    with quiet():
        for script in scripts:
            try:
                problems, nontrivial, label = regift_scenario(script)
            except Exception:
                import traceback
                problems, nontrivial, label = [("oracle/gift-exception", "regift %s raised: %s" % (script, traceback.format_exc()[-800:]))], False, "exception"
            ctx.case(["regift", script], nontrivial=bool(nontrivial))
            ctx.hist("regift", label)
            for sig, text in problems:
                ctx.fail(sig, text, replay=dict(scenario="regift: three Tubs, letters S O H D G as in harness/c08_impl.py", script=script))


def name_takeover_witness():
    """the model's do_register takes a name over like Tub._assignName does (GiftsProofs.introduction_refuted_by_name_takeover):
    replay on three real Tubs.  -> what the third party's proxy reaches: "old" | "new" | a description of anything else"""
    from foolscap.referenceable import RemoteReference
    E.reset_clock()
    net = Net()
    pems = [p for _, p in pems_sorted(3)]
    A, B, C = make_tub(net, "a", pems[0]), make_tub(net, "b", pems[1]), make_tub(net, "c", pems[2])
    old, new = Thing("old"), Thing("new")
    sink = Obj()
    f_old = A.registerReference(old, "service")
    fc = C.registerReference(sink)
    got = {}
    B.getReference(f_old).addCallback(lambda r: got.setdefault("p", r))
    B.getReference(fc).addCallback(lambda r: got.setdefault("sink", r))
    run_net(net)
    if set(got) != {"p", "sink"}:
        return "setup failed: %r" % (sorted(got),)
    try:
        A.registerReference(new, "service")
    except Exception as e:
        return "second registration refused: %r" % (e,)
    r = _call(net, got["sink"], "take", got["p"])
    if r != 1 or len(sink.got) != 1 or not isinstance(sink.got[0], RemoteReference):
        return "gift not delivered: %r %r" % (getattr(r, "value", r), sink.got)
    who = _call(net, sink.got[0], "whoami")
    for t in (A, B, C):
        t.stopService()
    E.turn()
    return who[0] if isinstance(who, list) else repr(getattr(who, "value", who))


# ------------------------------------------------------------------------------------------------------------
# four Tubs: the gifter holds proxies from TWO origins whose connection-local ids collide
class Keeper(Referenceable):
    """a registered target that can hand out / take objects"""

    def __init__(self):
        self.obj = None
        self.got = None

    def remote_get(self):
        return self.obj

    def remote_set2(self, obj1, obj2):
        self.got = (obj1, obj2)
        return True


class Thing(Referenceable):
    def __init__(self, name):
        self.name = name

    def remote_whoami(self):
        return [self.name, id(self)]


def run_net(net, blocked=None, maxsteps=100000):
    """deliver everything deliverable, except on links for which blocked(link) holds"""
    n = 0
    while True:
        E.turn()
        c = [ch for ch in net.deliverable() if not (blocked and blocked(ch[0]))]
        if not c:
            return n
        l, what = c[0]
        if not isinstance(what, tuple):
            # one segment = everything written so far in that direction (up to a FIN): far fewer, larger deliveries
            q = l.q[what]
            k = 0
            while k < len(q) and q[k] is not None:
                k += 1
            if k > 1:
                q[:k] = [b"".join(q[:k])]
        net.step(c[0])
        n += 1
        if n > maxsteps:
            raise RuntimeError("no quiescence")


def scenario4(order, delay):
    """alice (A) and dave (D) own one otherwise unreferenced Thing each; bob (B) holds a proxy of both -- each the 2nd
    object sent on its connection, so both carry the same clid -- gives both to carol (C) in ONE call and forgets them at
    once.  delay: carol's introduction to dave's Tub is held back until bob's releases have reached the owners."""
    import weakref
    from foolscap.referenceable import RemoteReference
    E.reset_clock()
    net = Net()
    pems = [p for _, p in pems_sorted(4)]
    tubs = {}
    for role, idx in zip("abcd", order):
        tubs[role] = make_tub(net, role, pems[idx])
    A, B, C, D = tubs["a"], tubs["b"], tubs["c"], tubs["d"]
    alice, carol, dave = Keeper(), Keeper(), Keeper()
    fa, fc, fd = A.registerReference(alice), C.registerReference(carol), D.registerReference(dave)
    got = {}
    for k, f in (("a", fa), ("c", fc), ("d", fd)):
        B.getReference(f).addCallback(lambda r, k=k: got.setdefault(k, r))
    run_net(net)
    if set(got) != {"a", "c", "d"}:
        return [("oracle/gift-setup-failed", "bob could not reach alice, carol, dave: %r" % (sorted(got),))], 0
    tx, ty = Thing("alice's thing"), Thing("dave's thing")
    ids = {"alice's thing": id(tx), "dave's thing": id(ty)}
    wx, wy = weakref.ref(tx), weakref.ref(ty)
    alice.obj, dave.obj = tx, ty
    prox = {}
    got["a"].callRemote("get").addBoth(lambda r: prox.setdefault("x", r))
    got["d"].callRemote("get").addBoth(lambda r: prox.setdefault("y", r))
    run_net(net)
    alice.obj = dave.obj = None
    del tx, ty
    gc.collect()
    if not all(isinstance(prox.get(k), RemoteReference) for k in ("x", "y")):
        return [("oracle/gift-setup-failed", "bob did not get proxies: %r" % (prox,))], 0
    same_clid = prox["x"].tracker.clid == prox["y"].tracker.clid
    if wx() is None or wy() is None:
        return [("oracle/released-early", "an object died although bob holds a proxy of it")], 0
    # bob hands both to carol in one call and forgets them
    res = []
    got["c"].callRemote("set2", obj1=prox["x"], obj2=prox["y"]).addBoth(res.append)
    prox.clear()
    gc.collect()

    def blocked(link):
        pair = {getattr(link, "client_tub", None), getattr(link, "server_tub", None)}
        return delay and pair == {C, D}
    run_net(net, blocked)          # everything except carol <-> dave: bob's decrefs (if any) reach the owners
    gc.collect()
    run_net(net, blocked)
    run_net(net)                   # now the introduction to dave's Tub completes
    for i in range(3):
        if res:
            break
        E.clock.advance(130)
        run_net(net)
    problems = []
    cfg = "roles %r, clids collide: %s, carol<->dave delayed: %s" % (list(order), same_clid, bool(delay))
    if res != [True] or carol.got is None:
        problems.append(("oracle/gift-not-delivered", "the call carrying two gifts (from two different owners) did not complete: %r; %s"
                         % ([getattr(r, "value", r) for r in res], cfg)))
    else:
        for p, owner, name in ((carol.got[0], A, "alice's thing"), (carol.got[1], D, "dave's thing")):
            if not isinstance(p, RemoteReference):
                problems.append(("oracle/gift-identity-lost", "carol received %r for %s; %s" % (p, name, cfg)))
                continue
            if p.getRemoteTubID() != owner.tubID:
                problems.append(("oracle/call-misrouted", "carol's proxy for %s points at another Tub; %s" % (name, cfg)))
            out = []
            p.callRemote("whoami").addBoth(out.append)
            run_net(net)
            if out != [[name, ids[name]]]:
                problems.append(("oracle/call-misrouted", "a call through carol's proxy for %s returned %r, expected the original "
                                 "object %r; %s" % (name, [getattr(r, "value", r) for r in out], [name, ids[name]], cfg)))
    for t in (A, B, C, D):
        t.stopService()
    E.turn()
    return problems, (1 if same_clid else 0)


def gifts(ctx):
    import itertools
    with quiet():
        for order in itertools.permutations(range(3)):
            try:
                problems, ok = scenario(order)
            except Exception as e:
                import traceback
                problems, ok = [("oracle/gift-exception", "gift scenario raised: %s" % traceback.format_exc()[-800:])], 0
            ctx.case(["gift", list(order)], nontrivial=bool(ok))
            ctx.hist("gift_scenario", "held" if not problems else problems[0][0])
            for sig, text in problems:
                ctx.fail(sig, "%s; three Tubs, role order %r" % (text, list(order)), replay=dict(scenario="gift", order=list(order)))
        for order in [(0, 1, 2, 3), (3, 2, 1, 0), (1, 3, 0, 2), (2, 0, 3, 1)]:
            for delay in (True, False):
                try:
                    problems, ok = scenario4(order, delay)
                except Exception as e:
                    import traceback
                    problems, ok = [("oracle/gift-exception", "four-Tub gift scenario raised: %s" % traceback.format_exc()[-800:])], 0
                ctx.case(["gift4", list(order), delay], nontrivial=bool(ok))
                ctx.hist("gift4_scenario", "held" if not problems else problems[0][0])
                for sig, text in problems:
                    ctx.fail(sig, text, replay=dict(scenario="gift4: two origins with colliding clids gifted in one call, gifter "
                                                    "drops both, recipient's link to the second owner delayed",
                                                    order=list(order), delay=delay))


# ------------------------------------------------------------------------------------------------------------
# two successive connections between the same two Tubs; proxies of the first connection are still held and are
# sent / called / used as call targets after the second connection exists (C08), and nothing done with them may
# repopulate the tables of the dead Brokers (C09)
class Sub(Referenceable):
    def __init__(self, name):
        self.name = name
        self.marks = 0
        self.got = []

    def remote_mark(self):
        self.marks += 1
        return self.name

    def remote_take(self, x):
        self.got.append(x)
        return True


class Service(Referenceable):
    def __init__(self):
        self.subs = {}
        self.args = []

    def remote_open(self, name):
        s = self.subs[name] = Sub(name)
        return s

    def remote_close(self, x):
        self.args.append(x)
        return True


def _call(net, rref, *a, **kw):
    out = []
    rref.callRemote(*a, **kw).addBoth(out.append)
    for i in range(4):
        run_net(net)
        if out:
            break
        E.clock.advance(130)
    return out[0] if out else None


def dead_tables(b):
    return {n: len(getattr(b, n)) for n in ("myReferenceByPUID", "myReferenceByCLID", "yourReferenceByCLID", "yourReferenceByURL",
                                            "myGifts", "myGiftsByGiftID") if getattr(b, n)}


def reconnect_scenario(nx, ny, handler):
    """-> (problems, nontrivial).  nx / ny: objects exported on the first / second connection (clids restart at 1, so for
    ny >= 1 the stale clids collide with DIFFERENT objects); handler: a notifyOnDisconnect handler on the client fires
    callRemote / callRemoteOnly with by-reference arguments at the dying connection"""
    import weakref
    from foolscap.referenceable import RemoteReference
    from foolscap.ipb import DeadReferenceError
    problems = []
    E.reset_clock()
    net = Net()
    pems = [p for _, p in pems_sorted(2)]
    A, B = make_tub(net, "a", pems[0]), make_tub(net, "b", pems[1])
    service = Service()
    furl = A.registerReference(service)
    got = []
    B.getReference(furl).addBoth(got.append)
    run_net(net)
    if not got or not isinstance(got[0], RemoteReference):
        return [("oracle/reconnect-setup-failed", "first getReference: %r" % (got,))], 0
    svc1 = got[0]
    old = {}
    for i in range(nx):
        old["X%d" % i] = _call(net, svc1, "open", "X%d" % i)
    if not all(isinstance(p, RemoteReference) for p in old.values()):
        return [("oracle/reconnect-setup-failed", "open on the first connection: %r" % (old,))], 0
    # a by-reference object of the client travels to the server on the first connection too
    local = Sub("client-local")
    wlocal = weakref.ref(local)
    if nx:
        _call(net, old["X0"], "take", local)
    a1 = list(A.brokers.values())[0]
    b1 = list(B.brokers.values())[0]
    fired = []
    if handler:
        def on_disconnect():
            # sends at a connection that is already dead, with pass-by-reference arguments
            o = Sub("sent-from-disconnect-handler")
            fired.append(weakref.ref(o))
            svc1.callRemoteOnly("close", o)
            svc1.callRemote("close", [o, local]).addErrback(lambda f: fired.append(f.type))
            for p in old.values():
                p.callRemoteOnly("take", o)
                svc1.callRemoteOnly("close", p)
            del o
        svc1.notifyOnDisconnect(on_disconnect)
    for l in list(net.links):
        l.cut()
    run_net(net)
    gc.collect()
    if not (a1.disconnected and b1.disconnected):
        problems.append(("oracle/reconnect-setup-failed", "the old Brokers are not disconnected after the cut"))

    def check_dead(where):
        for nm, b in (("server", a1), ("client", b1)):
            t = dead_tables(b)
            if t:
                problems.append(("oracle/table-survives-connection-loss", "%s: tables of the dead %s Broker are not empty: %r"
                                 % (where, nm, t)))
    check_dead("after connection loss" + (" and a disconnect handler that sends by-reference arguments" if handler else ""))
    # second connection
    got2 = []
    B.getReference(furl).addBoth(got2.append)
    run_net(net)
    if not got2 or not isinstance(got2[0], RemoteReference):
        return problems + [("oracle/reconnect-setup-failed", "second getReference: %r" % (got2,))], 0
    svc2 = got2[0]
    if svc2 is svc1:
        problems.append(("oracle/reconnect-setup-failed", "the second connection returned the old proxy"))
    new = {}
    for i in range(ny):
        new["Y%d" % i] = _call(net, svc2, "open", "Y%d" % i)
    cfg = "first connection exported %d objects, second %d, disconnect handler: %s" % (nx, ny, bool(handler))

    def who(x):
        """identity of what the server was handed: the object itself, or whatever a call through it reaches"""
        if isinstance(x, Sub):
            return x.name, "object"
        if isinstance(x, RemoteReference):
            r = _call(net, x, "mark")
            return (r if isinstance(r, str) else repr(getattr(r, "value", r))), "proxy"
        return repr(x), "other"
    # 1. stale proxies handed to the owner over the NEW connection, bare and nested
    for name, p in sorted(old.items()):
        for nested in (False, True):
            del service.args[:]
            r = _call(net, svc2, "close", [p, p] if nested else p)
            if r is not True or len(service.args) != 1:
                problems.append(("oracle/home-not-delivered", "a proxy for %s obtained over the earlier connection could not be handed "
                                 "to its owner over the new one: %r; %s" % (name, getattr(r, "value", r), cfg)))
                continue
            xs = service.args[0] if nested else [service.args[0]]
            for x in xs:
                w, kind = who(x)
                if w != name:
                    problems.append(("oracle/home-not-original", "the proxy for %s (from the earlier connection) handed to its owner over "
                                     "the new connection arrived as %s %s; %s" % (name, kind, w, cfg)))
    # 2. proxies of the new connection go home as the originals
    for name, p in sorted(new.items()):
        del service.args[:]
        r = _call(net, svc2, "close", p)
        if r is not True or len(service.args) != 1 or service.args[0] is not service.subs[name]:
            problems.append(("oracle/home-not-original", "the proxy for %s sent home arrived as %r (%r); %s"
                             % (name, service.args, getattr(r, "value", r), cfg)))
    # 3. calls through stale proxies reach nothing (and certainly not another object)
    marks = {n: s.marks for n, s in service.subs.items()}
    for name, p in sorted(old.items()):
        r = _call(net, p, "mark")
        if not (hasattr(r, "check") and r.check(DeadReferenceError)):
            problems.append(("oracle/call-misrouted", "a call through the stale proxy for %s returned %r; %s" % (name, r, cfg)))
    moved = {n: s.marks - marks[n] for n, s in service.subs.items() if s.marks != marks[n]}
    if moved:
        problems.append(("oracle/call-misrouted", "calls through stale proxies reached %r; %s" % (moved, cfg)))
    # 4. sends at the dead connection with by-reference arguments: callRemote fails, callRemoteOnly is ignored, and the dead
    #    Brokers' tables stay empty (nothing is pinned)
    o = Sub("sent-after-loss")
    wo = weakref.ref(o)
    r = _call(net, svc1, "close", o)
    if not (hasattr(r, "check") and r.check(DeadReferenceError)):
        problems.append(("oracle/stale-call-not-refused", "callRemote on a proxy of the lost connection returned %r; %s" % (r, cfg)))
    svc1.callRemoteOnly("close", [o, local])
    for p in old.values():
        p.callRemoteOnly("take", o)
        svc1.callRemoteOnly("close", p)
    run_net(net)
    check_dead("after callRemote/callRemoteOnly with by-reference arguments on proxies of the lost connection")
    del o, r       # (the Failure's exception keeps the frames of the refused call, and with them its arguments)
    gc.collect()
    if wo() is not None:
        problems.append(("oracle/table-survives-connection-loss", "an object passed to callRemoteOnly on a dead connection stays "
                         "pinned; %s" % cfg))
    for w in fired:
        if isinstance(w, weakref.ref) and w() is not None:
            problems.append(("oracle/table-survives-connection-loss", "an object sent from a notifyOnDisconnect handler stays pinned; "
                             "%s" % cfg))
    if handler and DeadReferenceError not in fired:
        problems.append(("oracle/stale-call-not-refused", "callRemote from a notifyOnDisconnect handler did not fail with "
                         "DeadReferenceError: %r; %s" % (fired, cfg)))
    # 5. what YourReferenceSlicer puts on the wire for (proxy's connection, outgoing connection), for the correspondence
    #    with the model's slice_proxy (done last: the gift branch registers a gift on the live Broker)
    from foolscap.referenceable import YourReferenceSlicer
    live = [b for b in B.brokers.values() if not b.disconnected]
    p = None
    for pconn, p in ([(1, q) for q in old.values()] + [(2, q) for q in new.values()] + [(1, svc1), (2, svc2)]) if live else []:
        for oconn, br in ((1, b1), (2, live[0])):
            try:
                tok = next(YourReferenceSlicer(p).slice(False, br))
            except Exception as e:
                tok = repr(e).encode()
            WIRE_OBS.append((pconn, oconn, tok.decode("ascii", "replace")))
    del p
    for t in (A, B):
        t.stopService()
    E.turn()
    return problems, int(nx > 0 and ny > 0)


WIRE_OBS = []


def wire_correspondence(ctx):
    """model's slice_proxy vs the real YourReferenceSlicer on every (proxy connection, outgoing connection) pair seen"""
    from harness import common
    obs = sorted(set(WIRE_OBS))
    del WIRE_OBS[:]
    if not obs:
        return
    pairs = sorted(set((a, b) for a, b, _ in obs))
    body = ("Local Open Scope Z_scope.\nDefinition code (w : wire) : Z := match w with WYourRef _ => 1 | WTheirRef _ => 2 end.\n"
            "Eval vm_compute in map (fun pq => code (slice_proxy {| conn_id := fst pq; conn_peer := 7 |} "
            "{| conn_id := snd pq; conn_peer := 7 |} 5 9)) %s.\n" % common.coq_list(["(%d, %d)" % pq for pq in pairs]))
    try:
        (vals,) = ctx.coq_eval("C08_wire_cases", body, requires=["Verif.lib.PyLite", "Verif.gen.RefsGen", "Verif.lib.Refs"])
    except common.CoqEvalError as e:
        ctx.fail("correspondence-broken", "slice_proxy could not be evaluated: " + str(e)[-800:], has_input=False)
        return
    want = dict(zip(pairs, vals))
    names = {1: "your-reference", 2: "their-reference"}
    for a, b, tok in obs:
        ctx.traces += 1
        if names.get(want[(a, b)]) != tok:
            ctx.fail("correspondence/going-home-decision", "a proxy received on connection %d, serialised on connection %d (same peer "
                     "Tub): model says %s, YourReferenceSlicer emits %s" % (a, b, names.get(want[(a, b)]), tok),
                     replay=dict(proxy_conn=a, out_conn=b, impl=tok), has_input=False)
    ctx.extra["wire_cases"] = len(obs)


RECONNECT_SIG = {"oracle/table-survives-connection-loss": "C09", "oracle/stale-call-not-refused": "C09"}


def reconnect(ctx, pid):
    """run the reconnection family; report the signatures that belong to property pid (C08: identity, C09: tables)"""
    with quiet():
        for nx in (0, 1, 2, 3):
            for ny in (0, 1, 3):
                for handler in (False, True):
                    try:
                        problems, ok = reconnect_scenario(nx, ny, handler)
                    except Exception:
                        import traceback
                        problems, ok = [("oracle/reconnect-exception", "reconnect scenario raised: %s" % traceback.format_exc()[-900:])], 0
                    ctx.case(["reconnect", nx, ny, handler], nontrivial=bool(ok))
                    ctx.hist("reconnect_scenario", "held" if not problems else problems[0][0])
                    for sig, text in problems:
                        if RECONNECT_SIG.get(sig, "C08" if sig != "oracle/reconnect-exception" else pid) != pid:
                            continue
                        ctx.fail(sig, text, replay=dict(scenario="reconnect: proxies of an earlier connection to the same Tub are sent home / "
                                                        "called / used as targets after reconnection", nx=nx, ny=ny, handler=handler))


# ------------------------------------------------------------------------------------------------------------
# SEVERAL gifts inside one container / one call, the carrying message split at every byte position, the introductions
# completing in every order the links allow (gifts from two owners: A-first / D-first)
class Factory(Referenceable):
    """lives on an owner Tub; what it makes is kept alive only by the references other Tubs hold"""

    def __init__(self, tag):
        self.tag = tag
        self.made = {}

    def remote_make(self, n):
        import weakref
        t = Thing("%s%d" % (self.tag, n))
        self.made[t.name] = weakref.ref(t)
        return t


class GiftSink(Referenceable):
    def __init__(self):
        self.seen = []
        self.raw = []
        self.keep_raw = False     # (only the shared-gift family looks at the structure; it empties the list itself)

    def _flat(self, x, out):
        if isinstance(x, dict):
            for k in sorted(x, key=repr):
                self._flat(x[k], out)
        elif isinstance(x, (list, tuple, set, frozenset)):
            for y in x:
                self._flat(y, out)
        else:
            out.append(x)
        return out

    def _snap(self, x):
        """structural copy: mutable containers are copied (so the snapshot shows the moment of invocation), leaves and
        immutable containers are the delivered objects themselves"""
        if isinstance(x, dict):
            return {k: self._snap(v) for k, v in x.items()}
        if isinstance(x, list):
            return [self._snap(y) for y in x]
        if isinstance(x, set):
            return set(x)
        return x

    def remote_take(self, container):
        # what the argument looks like AT THE MOMENT the method is invoked
        if self.keep_raw:
            self.raw.append(([self._snap(container)], {}))
        self.seen.append((type(container).__name__, self._flat(container, [])))
        return len(self.seen)

    def remote_take3(self, a, b, c=None):
        if self.keep_raw:
            self.raw.append(([self._snap(a), self._snap(b), self._snap(c)], {}))
        self.seen.append(("args", self._flat([a, b, c], [])))
        return len(self.seen)



CONTAINERS = {
    "list": lambda g: ("take", [list(g)], {}),
    "tuple": lambda g: ("take", [tuple(g)], {}),
    "set": lambda g: ("take", [set(g)], {}),
    "dict": lambda g: ("take", [{i: x for i, x in enumerate(g)}], {}),
    "args": lambda g: ("take3", list(g[:3]), {}),
    "kwargs": lambda g: ("take3", [], dict(zip("abc", g[:3]))),
    "nested": lambda g: ("take", [{"k": [g[0], (g[1],)], "rest": list(g[2:])}], {}),
    "list+plain": lambda g: ("take", [[1, g[0], "x", g[1]] + list(g[2:])], {}),
}
CONTAINER_TYPE = {"list": "list", "tuple": "tuple", "set": "set", "dict": "dict", "args": "args", "kwargs": "args", "nested": "dict",
                  "list+plain": "list"}


# ONE gift-bearing value in several places of one call.  CARRIERS: what the value is (g = the gifter's proxies, one per owner
# entry); all but "bare" and "list" are immutable, so the receiver's unslicer hands its parents a placeholder until the gifts
# are introduced, and every further place refers back to that same placeholder.
CARRIERS = {
    "bare": lambda g: g[0],
    "tuple": lambda g: tuple(g),
    "frozenset": lambda g: frozenset(g[:1]),
    "tuple-in-tuple": lambda g: (tuple(g),),
    "tuple-in-frozenset": lambda g: frozenset([tuple(g)]),
    "tuple-of-list": lambda g: ([g[0]], tuple(g[1:]) or (g[0],)),
    "list": lambda g: list(g),
}
CARRIER_HASHABLE = {"bare", "tuple", "frozenset", "tuple-in-tuple", "tuple-in-frozenset"}
# SHAPES: where the places are
SHAPES = {
    "pos,pos": lambda v: ("take3", [v, v], {}),
    "kw,kw": lambda v: ("take3", [], dict(a=v, b=v)),
    "pos,kw": lambda v: ("take3", [v], dict(b=v)),
    "kw-reversed": lambda v: ("take3", [], dict(c=v, b=v, a=7)),
    "three": lambda v: ("take3", [v, v, v], {}),
    "arg+list": lambda v: ("take3", [[v], v], {}),
    "arg+dict+tuple": lambda v: ("take3", [v], dict(b={"k": v}, c=(v, 1))),
    "list-twice": lambda v: ("take", [[v, v]], {}),
    "list-thrice+plain": lambda v: ("take", [[v, 1, v, "x", v]], {}),
    "tuple-twice": lambda v: ("take", [(v, v)], {}),
    "dict-values": lambda v: ("take", [{0: v, 1: v}], {}),
    "nested": lambda v: ("take", [{"k": [v, (v,)], "rest": [v]}], {}),
    "set+list": lambda v: ("take3", [set([v]), [v]], {}),
    "frozenset+arg": lambda v: ("take3", [frozenset([v, 5]), v], {}),
}
# (not a shape: the value as a dictionary KEY.  DictUnslicer.receiveKey refuses a key that is still incomplete -- "incomplete
# object as dictionary key" -- and the connection is dropped; a tuple holding a gift is such a key.  Reported, not checked here.)
SHAPE_NEEDS_HASHABLE = {"set+list", "frozenset+arg"}


def backref_windows(data, vocab_reference=None):
    """cut positions p (first p bytes delivered, then the introductions run, then the rest) at which a banana back-reference
    -- OPEN 'reference' INT CLOSE -- has received its INT but not yet all of its CLOSE: ReferenceUnslicer has then already
    fetched the (still incomplete) target and hands it to its parent only when the CLOSE arrives.  -> sorted list of p"""
    toks = []          # (type byte, header value, end offset, body)
    i, n = 0, len(data)
    while i < n:
        j = i
        while j < n and data[j] < 0x80:
            j += 1
        if j >= n:
            break
        val = 0
        for k in range(j - 1, i - 1, -1):
            val = val * 128 + data[k]
        t = data[j]
        end = j + 1
        body = None
        if t in (0x82, 0x85, 0x86, 0x8D):      # STRING, LONGINT, LONGNEG, ERROR: header = length of the body
            body = data[end:end + val]
            end += val
        elif t == 0x84:                        # FLOAT
            end += 8
        toks.append((t, val, end, body))
        i = end
    out = []
    for k in range(len(toks) - 3):
        t0, t1, t2, t3 = toks[k:k + 4]
        if t0[0] != 0x88 or t2[0] != 0x81 or t3[0] != 0x89 or t3[1] != t0[1]:
            continue
        is_ref = (t1[0] == 0x82 and t1[3] == b"reference") or (t1[0] == 0x87 and (vocab_reference is None or t1[1] == vocab_reference))
        if is_ref:
            out += list(range(t2[2], t3[2]))
    return sorted(set(out))


class GiftWorld:
    """four Tubs: owners A and D, gifter B, recipient C; all connections exist before the gifts are sent"""

    def __init__(self):
        from foolscap.referenceable import RemoteReference
        E.reset_clock()
        self.net = net = Net()
        pems = [p for _, p in pems_sorted(4)]
        self.A, self.B, self.C, self.D = [make_tub(net, n, pems[i]) for i, n in enumerate("abcd")]
        self.facA, self.facD, self.sink = Factory("a"), Factory("d"), GiftSink()
        fa, fd, fc = self.A.registerReference(self.facA), self.D.registerReference(self.facD), self.C.registerReference(self.sink)
        got = {}
        for k, tub, f in (("fa", self.B, fa), ("fd", self.B, fd), ("sink", self.B, fc), ("ca", self.C, fa), ("cd", self.C, fd)):
            tub.getReference(f).addCallback(lambda r, k=k: got.setdefault(k, r))
        run_net(net)
        self.ok = all(isinstance(got.get(k), RemoteReference) for k in ("fa", "fd", "sink", "ca", "cd"))
        self.got = got
        self.n = 0

    def link(self, t1, t2):
        for l in self.net.links:
            if {getattr(l, "client_tub", None), getattr(l, "server_tub", None)} == {t1, t2} and not any(e.closed for e in l.ends):
                return l
        return None

    def make(self, owners):
        out = []
        for o in owners:
            self.n += 1
            out.append(_call(self.net, self.got["fa" if o == "a" else "fd"], "make", self.n))
        return out

    def carry(self, meth, args, kw, split, order):
        """B calls the sink on C; the carrying message reaches C in two segments cut at byte `split` (None: one piece; a
        function: called with the message's bytes and the vocabulary index of 'reference', returns the position);
        between and after the segments the C<->A and C<->D links run in `order`.  -> (answers, the message's bytes, split)"""
        net, B, C = self.net, self.B, self.C
        bc = self.link(B, C)
        side = 0 if bc.client_tub is B else 1
        res = []
        self.got["sink"].callRemote(meth, *args, **kw).addBoth(res.append)
        E.turn()
        data = b"".join(x for x in bc.q[side] if x is not None)
        bc.q[side] = [data]
        if callable(split):
            # the cut position is chosen from the bytes of THIS message (their number varies with the ids inside)
            ref = [b.outgoingVocabulary.get(b"reference") for b in B.brokers.values() if b.remote_tubref.getTubID() == C.tubID]
            split = split(data, ref[0] if ref else None)
        links = {"a": self.link(C, self.A), "d": self.link(C, self.D)}

        def others():
            # everything except the carrying link, introductions in the requested order
            for rounds in range(50):
                moved = 0
                for o in order:
                    moved += run_net(net, lambda l: l is not links[o])
                moved += run_net(net, lambda l: l is bc)
                if not moved:
                    return
        if split is not None and 0 < split < len(data):
            net.step((bc, side), split)
            others()
        run_net(net, lambda l: l is not bc)
        others()
        run_net(net)
        for i in range(3):
            if res:
                break
            E.clock.advance(130)
            run_net(net)
        return res, data, split

    def send(self, kind, owners, split, order):
        """B sends `kind` holding one gift per entry of owners; the carrying message reaches C in two segments cut at byte
        `split` (None: one piece); between and after the segments the C<->A and C<->D links run in `order`.
        -> (problems, message length)"""
        from foolscap.referenceable import RemoteReference
        net, B, C = self.net, self.B, self.C
        gifts = self.make(owners)
        if not all(isinstance(g, RemoteReference) for g in gifts):
            return [("oracle/gift-setup-failed", "factory returned %r" % (gifts,))], 0
        names = []
        for o in owners:
            pass
        for k, o in enumerate(owners):
            fac = self.facA if o == "a" else self.facD
            nm = "%s%d" % (o, self.n - len(owners) + 1 + k)
            t = fac.made[nm]()
            names.append([nm, id(t)] if t is not None else None)
            del t
        meth, args, kw = CONTAINERS[kind](gifts)
        nsent = len([1 for x in GiftSink()._flat(list(args) + list(kw.values()), []) if isinstance(x, RemoteReference)])
        before = len(self.sink.seen)
        del self.sink.raw[:]
        res, data, split = self.carry(meth, args, kw, split, order)
        cfg = "%d gifts (owners %s) in %s, message of %d bytes cut at %r, introductions run in order %s" % (
            len(gifts), "".join(owners), kind, len(data), split, "".join(order))
        problems = []
        seen = self.sink.seen[before:]
        if len(res) != 1 or not isinstance(res[0], int) or len(seen) != 1:
            problems.append(("oracle/gift-not-delivered", "the call carrying the gifts did not complete exactly once: answers %r, "
                             "invocations %d; %s" % ([getattr(r, "value", r) for r in res], len(seen), cfg)))
        else:
            ctype, items = seen[0]
            proxies = [x for x in items if isinstance(x, RemoteReference)]
            junk = [x for x in items if not isinstance(x, RemoteReference) and x not in (1, "x", None)]
            if junk or len(proxies) != nsent or ctype != CONTAINER_TYPE[kind]:
                problems.append(("oracle/gift-identity-lost", "the recipient's method was invoked with %s %r instead of %d proxies; %s"
                                 % (ctype, [type(x).__name__ + ":" + repr(x)[:60] for x in items], nsent, cfg)))
            who = [_call(net, p, "whoami") for p in proxies]
            reached = sorted(tuple(r) if isinstance(r, list) else ("?",) for r in who)
            want = sorted(tuple(nm) for nm in names[:nsent] if isinstance(nm, list))
            if kind != "set" and len(set(map(tuple, want))) == len(want) and reached != want and not junk:
                problems.append(("oracle/call-misrouted", "calls through the recipient's proxies reached %r, the originals are %r; %s"
                                 % (reached, want, cfg)))
            elif kind == "set" and set(reached) != set(want) and not junk:
                problems.append(("oracle/call-misrouted", "calls through the recipient's proxies reached %r, the originals are %r; %s"
                                 % (reached, want, cfg)))
            # same original -> same proxy inside one delivery
            byname = {}
            for p, r in zip(proxies, who):
                if isinstance(r, list):
                    byname.setdefault(tuple(r), set()).add(id(p))
            if any(len(v) > 1 for v in byname.values()):
                problems.append(("oracle/gift-different-proxy-while-held", "one original arrived as several proxies in one call; " + cfg))
            del proxies, items
        del self.sink.seen[before:]
        del self.sink.raw[:]
        del gifts, args, kw, seen
        if self.n % 40 < len(owners):
            gc.collect()
        run_net(net)
        return problems, len(data)

    def send_shared(self, carrier, shape, owners, split, order):
        """ONE value that holds gifts -- `carrier` builds it from the gifts: the bare proxy, or an immutable container, which the
        receiver can only build once the gifts inside it are introduced -- occupies SEVERAL places of one call (`shape`: two
        arguments, positional / keyword, elements of a list / tuple / dict / set, an argument and an element of another
        argument...); all places but the first travel as references to the first.  Every place must hold, when the method is
        invoked, a value of the shape that was sent, with ONE proxy per original in all places, through which calls reach the
        original.  -> (problems, message length)"""
        from foolscap.referenceable import RemoteReference
        net = self.net
        gifts = self.make(owners)
        if not all(isinstance(g, RemoteReference) for g in gifts):
            return [("oracle/gift-setup-failed", "factory returned %r" % (gifts,))], 0
        name_of = {}
        for k, o in enumerate(owners):
            fac = self.facA if o == "a" else self.facD
            nm = "%s%d" % (o, self.n - len(owners) + 1 + k)
            t = fac.made[nm]()
            if t is None:
                return [("oracle/released-early", "%s died although the gifter holds a proxy of it" % nm)], 0
            name_of[id(gifts[k])] = (nm, id(t))
            del t
        v = CARRIERS[carrier](gifts)
        meth, args, kw = SHAPES[shape](v)
        before = len(self.sink.seen)
        del self.sink.raw[:]
        self.sink.keep_raw = True
        res, data, split = self.carry(meth, args, kw, split, order)
        cfg = "%s (gifts from owners %s) sent as %s, message of %d bytes cut at %r, introductions run in order %s" % (
            carrier, "".join(owners), shape, len(data), split, "".join(order))
        problems = []
        raw = list(self.sink.raw)
        if len(res) != 1 or not isinstance(res[0], int) or len(raw) != 1:
            problems.append(("oracle/gift-not-delivered", "the call carrying the gifts did not complete exactly once: answers %r, "
                             "invocations %d; %s" % ([getattr(r, "value", r) for r in res], len(raw), cfg)))
        else:
            gargs, gkw = raw[0]
            if meth == "take3":
                # the sink's signature is take3(a, b, c=None): keywords land in their positional slots
                sent = list(args) + [None] * (3 - len(args))
                for k_, x in kw.items():
                    sent["abc".index(k_)] = x
            else:
                sent = list(args)
            found = {}        # (name, id of the original) -> the proxies delivered for it
            bad = []

            def walk(s_, g, path):
                if isinstance(s_, RemoteReference):
                    if isinstance(g, RemoteReference):
                        found.setdefault(name_of[id(s_)], []).append(g)
                    else:
                        bad.append("%s: %s instead of a proxy for %s" % (path, type(g).__name__ + ":" + repr(g)[:50], name_of[id(s_)][0]))
                elif isinstance(s_, (list, tuple)):
                    if type(g) is not type(s_) or len(g) != len(s_):
                        bad.append("%s: %s instead of a %s of %d" % (path, type(g).__name__ + ":" + repr(g)[:50], type(s_).__name__, len(s_)))
                    else:
                        for i, (a_, b_) in enumerate(zip(s_, g)):
                            walk(a_, b_, "%s[%d]" % (path, i))
                elif isinstance(s_, (set, frozenset)):
                    if type(g) is not type(s_) or len(g) != len(s_):
                        bad.append("%s: %s instead of a %s of %d" % (path, type(g).__name__ + ":" + repr(g)[:50], type(s_).__name__, len(s_)))
                    elif len(s_) == 1:
                        walk(list(s_)[0], list(g)[0], path + "{0}")
                    else:
                        # members are unordered: compare what lies inside them, as multisets
                        fs, fg = GiftSink()._flat(s_, []), GiftSink()._flat(g, [])
                        ps, pg = [x for x in fs if isinstance(x, RemoteReference)], [x for x in fg if isinstance(x, RemoteReference)]
                        if len(fs) != len(fg) or len(ps) != len(pg):
                            bad.append("%s: %r instead of %d proxies" % (path, [type(x).__name__ for x in fg], len(ps)))
                        else:
                            found.setdefault(("members of " + path, 0), []).extend(pg)
                elif isinstance(s_, dict):
                    if type(g) is not dict or sorted(g, key=repr) != sorted(s_, key=repr):
                        bad.append("%s: %s instead of a dict with keys %r" % (path, type(g).__name__ + ":" + repr(g)[:50], sorted(s_, key=repr)))
                    else:
                        for k_ in s_:
                            walk(s_[k_], g[k_], "%s[%r]" % (path, k_))
                elif g != s_ or type(g) is not type(s_):
                    bad.append("%s: %r instead of %r" % (path, g, s_))
            walk(sent, gargs, "args")
            if bad:
                problems.append(("oracle/gift-identity-lost", "the recipient's method was invoked with something else than what was "
                                 "sent: %s; %s" % ("; ".join(bad[:4]), cfg)))
            # one original -> one proxy in all places; calls through it reach the original
            setlike = [k_ for k_ in found if k_[1] == 0]
            for key, ps in sorted(found.items(), key=repr):
                if key in setlike:
                    continue
                if any(p is not ps[0] for p in ps):
                    problems.append(("oracle/gift-different-proxy-while-held", "%s arrived as %d different proxies in the %d places "
                                     "of one call; %s" % (key[0], len(set(id(p) for p in ps)), len(ps), cfg)))
                r = _call(net, ps[0], "whoami")
                if r != [key[0], key[1]]:
                    problems.append(("oracle/call-misrouted", "a call through the recipient's proxy for %s returned %r, the original "
                                     "is %r; %s" % (key[0], getattr(r, "value", r), [key[0], key[1]], cfg)))
            firsts = [(key, ps[0]) for key, ps in found.items() if key not in setlike]
            for i, (k1, p1) in enumerate(firsts):
                for k2, p2 in firsts[i + 1:]:
                    if p1 is p2:
                        problems.append(("oracle/proxy-shared-by-objects", "%s and %s arrived as one proxy; %s" % (k1[0], k2[0], cfg)))
            # multi-member sets: the members' proxies, as a multiset, are the proxies found elsewhere for the same originals
            for key in setlike:
                want = sorted(id(p) for k_, p in firsts) if firsts else None
                got_ = sorted(set(id(p) for p in found[key]))
                if want is not None and not set(got_) <= set(want):
                    problems.append(("oracle/gift-different-proxy-while-held", "%s hold proxies that differ from those delivered in "
                                     "the other places of the same call; %s" % (key[0], cfg)))
            del firsts, found
        del raw
        self.sink.keep_raw = False
        del self.sink.seen[before:]
        del self.sink.raw[:]
        del gifts, args, kw, v
        if self.n % 40 < len(owners):
            gc.collect()
        run_net(net)
        self.last_split = split
        return problems, len(data)

    def close(self):
        for t in (self.A, self.B, self.C, self.D):
            t.stopService()
        E.turn()


def multi_gifts(ctx):
    """every container kind x owner pattern x every cut position of the carrying message x both introduction orders
    (quick: every 3rd cut position for the secondary owner patterns)"""
    # the cyclic collector must not run at arbitrary allocation points here: a proxy collected inside task.Clock's
    # sort of its call list fires _refLost -> eventually() -> callLater and the fake clock raises "list modified during
    # sort" (an artefact of the virtual clock, not of foolscap).  Collection happens at explicit points instead.
    gc.disable()
    try:
        _multi_gifts(ctx)
        _shared_gifts(ctx)
    finally:
        gc.enable()


def shared_combos():
    """fixed list (no random choice): every carrier x every shape x gifts from one owner / from two owners"""
    out = []
    for carrier in CARRIERS:
        for shape in SHAPES:
            if shape in SHAPE_NEEDS_HASHABLE and carrier not in CARRIER_HASHABLE:
                continue
            for owners in ("a", "ad"):
                out.append((carrier, shape, owners))
    return out


WINDOW_SIG = "oracle/gift-identity-lost/back-reference-closed-after-target-completed"
# fixed witnesses of that window: the parent that is handed the already-completed placeholder is a list / a dict / a tuple
WINDOW_WITNESSES = [("tuple", "list-twice", "a"), ("tuple", "dict-values", "a"), ("tuple", "tuple-twice", "a")]


def _cut_outside(pos):
    """cut at `pos` or the next position that does not lie between the INT and the end of the CLOSE of a back-reference"""
    def choose(data, vocab_reference):
        win = set(backref_windows(data, vocab_reference))
        n = len(data)
        p = 1 + (pos - 1) % (n - 1)
        for k in range(n):
            q = 1 + (p - 1 + k) % (n - 1)
            if q not in win:
                return q
        return None
    return choose


def _cut_window(j):
    """cut at the j-th position (from the end: the LAST back-reference of the message first) inside a back-reference"""
    def choose(data, vocab_reference):
        win = backref_windows(data, vocab_reference)
        return win[-1 - j] if j < len(win) else None
    return choose


def _shared_gifts(ctx):
    """one gift-bearing value in several places of one call: every combination once in one piece, and with the carrying message
    cut (quick: at one position per combination, rotating through the message; thorough: every 4th position, the residue
    class rotating, both introduction orders).  Cuts that fall between the INT and the CLOSE of a back-reference are a family
    of their own (WINDOW_SIG: ReferenceUnslicer has fetched the still incomplete target and hands it on at its CLOSE):
    three fixed witnesses in every run, every such position in the thorough tier."""
    with quiet():
        state = dict(W=None, n=0, nfailed=0)
        seen_sigs = set()

        def one(carrier, shape, owners, split, order, window):
            """-> (problems, message length) ; reports"""
            try:
                if state["W"] is None:
                    state["W"] = GiftWorld()
                    if not state["W"].ok:
                        state["W"] = None
                        return [("oracle/gift-setup-failed", "multi-gift world could not be set up")], 0
                W = state["W"]
                pr, length = W.send_shared(carrier, shape, list(owners), split, order)
                used = W.last_split
            except Exception:
                import traceback
                pr, length, used = [("oracle/gift-exception", "shared-gift scenario raised: %s" % traceback.format_exc()[-800:])], 0, None
            if window and used is None:
                return [], length           # (this message has no such position)
            if window:
                pr = [((WINDOW_SIG, "a back-reference to a value that holds a gift received its INT, then the gift's introduction "
                        "completed, then its CLOSE arrived: " + text) if sig in ("oracle/gift-identity-lost", "oracle/gift-not-delivered")
                       else (sig, text)) for sig, text in pr]
            state["n"] += 1
            ctx.case(["sharedgift", carrier, shape, owners, used, order], nontrivial=carrier not in ("bare", "list"))
            ctx.hist("sharedgift_outcome", "held" if not pr else pr[0][0])
            ctx.hist("sharedgift_carrier", carrier)
            ctx.hist("sharedgift_cut", "whole" if used is None else ("inside-back-reference" if window else "elsewhere"))
            for sig, text in pr:
                if sig not in seen_sigs:
                    seen_sigs.add(sig)
                    ctx.fail(sig, text, replay=dict(scenario="shared-gift: one gift-bearing value in several places of one call "
                                                    "(B gives C proxies of objects living on A / D)", carrier=carrier, shape=shape,
                                                    owners=owners, split=used, order=order))
            if pr:
                # the world may be damaged (a lost connection, a call that never completes): start afresh
                try:
                    state["W"].close()
                except Exception:
                    pass
                state["W"] = None
                if not window:
                    state["nfailed"] += 1
            return pr, length

        combos = shared_combos()
        # 1. the fixed witnesses of the back-reference window
        for carrier, shape, owners in WINDOW_WITNESSES:
            one(carrier, shape, owners, _cut_window(0), "ad", True)
        # 2. every combination
        for idx, (carrier, shape, owners) in enumerate(combos):
            pr, length = one(carrier, shape, owners, None, "ad", False)
            if length > 2 and not pr:
                if ctx.tier == "quick":
                    cuts = [(1 + (idx * 37) % (length - 1), "da" if idx % 2 else "ad")]
                else:
                    cuts = [(c, o) for o in ("ad", "da") for c in range(1 + (idx + (o == "da")) % 4, length, 4)]
                for pos, order in cuts:
                    pr, _ = one(carrier, shape, owners, _cut_outside(pos), order, False)
                    if pr:
                        break
                if ctx.tier != "quick" and carrier not in ("bare", "list"):
                    for j in range(12):
                        pr, _ = one(carrier, shape, owners, _cut_window(j), "da" if j % 2 else "ad", True)
            if state["nfailed"] >= 8:
                break       # (enough witnesses; every further one costs a new set of Tubs)
        ctx.extra["sharedgift_cases"] = state["n"]
        if state["W"] is not None:
            try:
                state["W"].close()
            except Exception:
                pass


def _multi_gifts(ctx):
    with quiet():
        try:
            W = GiftWorld()
        except Exception:
            import traceback
            ctx.fail("oracle/gift-exception", "multi-gift setup raised: %s" % traceback.format_exc()[-800:], replay=dict(scenario="multi-gift"))
            return
        if not W.ok:
            ctx.fail("oracle/gift-setup-failed", "multi-gift world could not be set up: %r" % (sorted(W.got),), replay=dict(scenario="multi-gift"))
            return
        seen_sigs = set()
        n = 0
        patterns = [("aa", ctx.n(3, 1)), ("ad", ctx.n(3, 1)), ("ada", ctx.n(7, 1)), ("aad", ctx.n(11, 1)), ("dd", ctx.n(11, 1))]
        for kind in CONTAINERS:
            for owners, stride in patterns:
                if kind in ("nested",) and len(owners) < 3:
                    continue
                try:
                    _, length = W.send(kind, list(owners), None, "ad")
                except Exception:
                    import traceback
                    ctx.fail("oracle/gift-exception", "multi-gift scenario raised: %s" % traceback.format_exc()[-800:],
                             replay=dict(scenario="multi-gift", kind=kind, owners=owners))
                    return
                for order in ("ad", "da"):
                    # quick tier: a residue class of cut positions that differs per (kind, owners, order), so that the classes
                    # of all combinations together cover every offset; thorough: every position
                    off = (len(kind) + len(owners) + (order == "da")) % stride
                    for split in [None] + list(range(1 + off, length, stride)):
                        try:
                            problems, _ = W.send(kind, list(owners), split, order)
                        except Exception:
                            import traceback
                            problems = [("oracle/gift-exception", "multi-gift scenario raised: %s" % traceback.format_exc()[-800:])]
                        n += 1
                        ctx.case(["multigift", kind, owners, split, order], nontrivial=split is not None)
                        ctx.hist("multigift_outcome", "held" if not problems else problems[0][0])
                        ctx.hist("multigift_kind", kind)
                        for sig, text in problems:
                            if sig not in seen_sigs:
                                seen_sigs.add(sig)
                                ctx.fail(sig, text, replay=dict(scenario="multi-gift: several gifts in one container, carrying message cut, "
                                                                "introduction order", kind=kind, owners=owners, split=split, order=order))
                        if any(s == "oracle/gift-exception" for s, _ in problems):
                            return
        ctx.extra["multigift_cases"] = n
        try:
            W.close()
        except Exception:
            pass


# ------------------------------------------------------------------------------------------------------------
# util.AsyncAND, the barrier behind "a container is delivered when all its gifts are introduced": direct oracle and
# correspondence with the model (Refs.aand_new / aand_complete) on every mixture of fired / pending inputs up to length 4
def asyncand_cases():
    import itertools
    from twisted.internet import defer
    from foolscap.util import AsyncAND
    out = []
    for n in range(0, 5):
        for flags in itertools.product([True, False], repeat=n):
            npend = flags.count(False)
            for rev in (False, True):
                ds = [defer.Deferred() for f in flags]
                for d, f in zip(ds, flags):
                    if f:
                        d.callback(1)
                a = AsyncAND(ds)
                fired = [bool(a.called)]
                pend = [d for d, f in zip(ds, flags) if not f]
                if rev:
                    pend.reverse()
                for d in pend:
                    d.callback(1)
                    fired.append(bool(a.called))
                out.append((list(flags), rev, fired))
    return out


def asyncand_check(ctx, model_ok):
    from harness import common
    cases = asyncand_cases()
    for flags, rev, fired in cases:
        npend = flags.count(False)
        want = [j == npend for j in range(npend + 1)]
        ctx.case(["asyncand", flags, rev], nontrivial=len(flags) >= 2 and 0 < npend < len(flags))
        if fired != want:
            ctx.fail("oracle/gift-barrier-fired-early", "AsyncAND over inputs %r (True = already fired when subscribed; pending ones fired "
                     "%s) reported fired=%r after 0..%d completions; a container holding gifts would be delivered before all of them "
                     "are introduced" % (flags, "last-first" if rev else "in order", fired, npend),
                     replay=dict(inputs=flags, reverse=rev, fired=fired))
    if not model_ok:
        return
    rows = sorted(set((tuple(f), j) for f, rev, fired in cases for j in range(len(fired))))
    body = ("Eval vm_compute in map (fun c => aa_fired (aand_complete (aand_new asyncand_init (fst c)) (snd c))) %s.\n"
            % common.coq_list(["(%s, %d%%nat)" % (common.coq_list([common.coq_bool(b) for b in f]) if f else "(@nil bool)", j) for f, j in rows]))
    try:
        (vals,) = ctx.coq_eval("C08_asyncand_cases", body, requires=["Verif.lib.PyLite", "Verif.gen.RefsGen", "Verif.lib.Refs"])
    except common.CoqEvalError as e:
        ctx.fail("correspondence-broken", "aand_new could not be evaluated: " + str(e)[-800:], has_input=False)
        return
    model = dict(zip(rows, vals))
    bad = 0
    for flags, rev, fired in cases:
        for j, f in enumerate(fired):
            ctx.traces += 1
            if model[(tuple(flags), j)] != f:
                bad += 1
                if bad == 1:
                    ctx.fail("correspondence/asyncand", "inputs %r after %d completions: model fired=%r, AsyncAND fired=%r"
                             % (flags, j, model[(tuple(flags), j)], f), replay=dict(inputs=flags, j=j), has_input=False)
    ctx.extra["asyncand_cases"] = len(cases)


# ------------------------------------------------------------------------------------------------------------
# ONE placeholder Deferred subscribed to by several parents (model: Refs.fire).  The real unslicers are driven through
# their own receiveChild (that is where they subscribe their update callback), then the Deferred fires with the value.
PLACE_KINDS = ["PList", "PTuple", "PSet", "PDict", "PArg"]


class _FakeProtocol:
    debugReceive = False
    exploded = None

    def setObject(self, count, obj):
        pass

    def getObject(self, count):
        return None


def _make_place(kind, d):
    """-> function returning what the place holds (the slot that was given the Deferred d)"""
    from foolscap.slicers.list import ListUnslicer
    from foolscap.slicers.tuple import TupleUnslicer
    from foolscap.slicers.set import SetUnslicer
    from foolscap.slicers.dict import DictUnslicer
    from foolscap.call import ArgumentUnslicer
    cls = dict(PList=ListUnslicer, PTuple=TupleUnslicer, PSet=SetUnslicer, PDict=DictUnslicer, PArg=ArgumentUnslicer)[kind]
    u = cls()
    u.protocol = _FakeProtocol()
    u.start(0)
    if kind == "PDict":
        u.receiveChild("k")
        u.receiveChild(d)
        return lambda: u.d.get("k")
    if kind == "PArg":
        u.receiveChild(1)            # one positional argument
        u.receiveChild(d)
        return lambda: u.args[0]
    u.receiveChild(d)
    if kind == "PSet":
        return lambda: (list(u.set)[0] if len(u.set) == 1 else list(u.set))
    return lambda: u.list[0]


def placeholder_cases():
    """every sequence of 1..3 places, and a few longer ones; -> [(kinds, what each place holds after the Deferred fired)]"""
    import itertools
    from twisted.internet import defer
    seqs = [list(s) for n in (1, 2, 3) for s in itertools.product(PLACE_KINDS, repeat=n)]
    seqs += [PLACE_KINDS, PLACE_KINDS[::-1], ["PArg"] * 5, ["PList", "PArg", "PList", "PArg", "PTuple", "PDict"]]
    out = []
    for kinds in seqs:
        d = defer.Deferred()
        value = ("the completed tuple", len(out))
        try:
            readers = [_make_place(k, d) for k in kinds]
            d.callback(value)
            held = [r() for r in readers]
        except Exception as e:
            held = ["exception: %r" % (e,)] * len(kinds)
        out.append((kinds, [1 if h is value else (0 if h is None else -1) for h in held], [repr(h)[:60] for h in held]))
    return out


def placeholder_check(ctx, model_ok):
    from harness import common
    with quiet():
        cases = placeholder_cases()
    reported = False
    for kinds, codes, shown in cases:
        ctx.case(["placeholder", kinds], nontrivial=len(kinds) >= 2)
        ctx.hist("placeholder_outcome", "held" if all(c == 1 for c in codes) else "lost")
        if not all(c == 1 for c in codes) and not reported:
            reported = True
            ctx.fail("oracle/gift-identity-lost/placeholder-not-updated-everywhere",
                     "one placeholder Deferred was handed to the parents %r (each subscribed through its own receiveChild) and then "
                     "fired with the completed value: the parents hold %r -- a value that holds a gift and occurs in several "
                     "places of one call arrives in some of them as something else" % (kinds, shown),
                     replay=dict(places=kinds, held=shown))
    if not model_ok:
        return
    rows = [k for k, _, _ in cases]
    body = ("Local Open Scope Z_scope.\nEval vm_compute in map (fun ps => map (fun o => match o with Some _ => 1 | None => 0 end) (fire (Some 5) ps)) %s.\n"
            % common.coq_list([common.coq_list(k) for k in rows]))
    try:
        (vals,) = ctx.coq_eval("C08_placeholder_cases", body, requires=["Verif.lib.PyLite", "Verif.gen.RefsGen", "Verif.lib.Refs"])
    except common.CoqEvalError as e:
        ctx.fail("correspondence-broken", "fire could not be evaluated: " + str(e)[-800:], has_input=False)
        return
    bad = 0
    for (kinds, codes, shown), m in zip(cases, vals):
        ctx.traces += 1
        if list(m) != codes:
            bad += 1
            if bad == 1:
                ctx.fail("correspondence/shared-placeholder", "places %r: the model says %r (1 = holds the completed value), the unslicers "
                         "hold %r" % (kinds, list(m), shown), replay=dict(places=kinds), has_input=False)
    ctx.extra["placeholder_cases"] = len(cases)
