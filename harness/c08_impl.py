"""C08, third-party gifts (not in the Coq model): three real Tubs on the in-memory network.
A owns object x; B holds a proxy of x and hands it to C, several times and nested in a list; after introduction C must
hold ONE proxy (while it holds it) that designates A's original x: calls through it reach x, and sending it home to A
yields x itself."""
import gc
from harness import implenv as E
from harness.implenv import Net, make_tub, pems_sorted, quiet, Referenceable


class Obj(Referenceable):
    def __init__(self):
        self.pings = 0
        self.got = []

    def remote_ping(self):
        self.pings += 1
        return self.pings

    def remote_take(self, x):
        self.got.append(x)
        return len(self.got)


def settle(net, res=None, n=1):
    for i in range(6):
        E.turn()
        net.run()
        if res is None or len(res) >= n:
            break
        E.clock.advance(1)


def scenario(order):
    """order: permutation index deciding which Tub plays A, B, C (tub ids differ, so master/slave roles differ)"""
    E.reset_clock()
    net = Net()
    pems = [p for _, p in pems_sorted(3)]
    names = ["a", "b", "c"]
    tubs = {}
    for role, idx in zip(names, order):
        tubs[role] = make_tub(net, role, pems[idx])
    A, B, C = tubs["a"], tubs["b"], tubs["c"]
    x, y = Obj(), Obj()
    csink = Obj()
    fx, fy = A.registerReference(x), A.registerReference(y)
    fc = C.registerReference(csink)
    got = {}
    B.getReference(fx).addCallback(lambda r: got.setdefault("x", r))
    B.getReference(fy).addCallback(lambda r: got.setdefault("y", r))
    B.getReference(fc).addCallback(lambda r: got.setdefault("c", r))
    settle(net)
    problems = []
    if set(got) != {"x", "y", "c"}:
        return [("oracle/gift-setup-failed", "B could not obtain its references: %r" % (sorted(got),))], 0
    res = []
    got["c"].callRemote("take", got["x"]).addBoth(res.append)
    settle(net, res, 1)
    got["c"].callRemote("take", [got["x"], got["y"], got["x"]]).addBoth(res.append)
    settle(net, res, 2)
    got["c"].callRemote("take", got["x"]).addBoth(res.append)
    settle(net, res, 3)
    if res != [1, 2, 3]:
        problems.append(("oracle/gift-not-delivered", "calls carrying gifts returned %r" % ([getattr(r, "type", r) for r in res],)))
        return problems, 0
    g1, (g2, gy, g3), g4 = csink.got
    from foolscap.referenceable import RemoteReference
    if not all(isinstance(g, RemoteReference) for g in (g1, g2, g3, g4, gy)):
        problems.append(("oracle/gift-identity-lost", "gifts arrived as %r" % (csink.got,)))
        return problems, 0
    if not (g1 is g2 is g3 is g4):
        problems.append(("oracle/gift-different-proxy-while-held", "the same gift arrived as different proxies while held: %r"
                         % ([id(g) for g in (g1, g2, g3, g4)],)))
    if gy is g1:
        problems.append(("oracle/proxy-shared-by-objects", "gifts of two different objects arrived as one proxy"))
    # calls through the gift reach the original objects
    out = []
    g1.callRemote("ping").addBoth(out.append)
    gy.callRemote("ping").addBoth(out.append)
    settle(net, out, 2)
    if (x.pings, y.pings) != (1, 1):
        problems.append(("oracle/call-misrouted", "calls through gifts of x and y reached x %d times, y %d times (results %r)"
                         % (x.pings, y.pings, [getattr(r, "type", r) for r in out])))
    # the gift sent home to A arrives as the original
    out2 = []
    gy.callRemote("take", g1).addBoth(out2.append)
    settle(net, out2, 1)
    if len(y.got) != 1 or y.got[0] is not x:
        problems.append(("oracle/home-not-original", "C's gift proxy of x sent to A arrived as %r" % (y.got,)))
    # C's proxy and B's proxy are different objects in different Tubs but B sending it again after C dropped it works
    del g1, g2, g3, g4
    del csink.got[:]
    gc.collect()
    settle(net)
    res2 = []
    got["c"].callRemote("take", got["x"]).addBoth(res2.append)
    settle(net, res2, 1)
    if len(csink.got) != 1 or not isinstance(csink.got[0], RemoteReference):
        problems.append(("oracle/gift-not-delivered", "gift sent again after the recipient dropped it: %r %r" % (res2, csink.got)))
    else:
        out3 = []
        csink.got[0].callRemote("ping").addBoth(out3.append)
        settle(net, out3, 1)
        if x.pings != 2:
            problems.append(("oracle/call-misrouted", "call through the re-sent gift did not reach x: %r" % (out3,)))
    for t in (A, B, C):
        t.stopService()
    E.turn()
    return problems, 1


def gifts(ctx):
    import itertools
    with quiet():
        for order in itertools.permutations(range(3)):
            try:
                problems, ok = scenario(order)
            except Exception as e:
                import traceback
                problems, ok = [("oracle/gift-exception", "gift scenario raised: %s" % traceback.format_exc()[-800:])], 0
            ctx.case(["gift", list(order)], nontrivial=bool(ok))
            ctx.hist("gift_scenario", "held" if not problems else problems[0][0])
            for sig, text in problems:
                ctx.fail(sig, "%s; three Tubs, role order %r" % (text, list(order)), replay=dict(scenario="gift", order=list(order)))
