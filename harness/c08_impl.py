"""C08, third-party gifts (not in the Coq model): three real Tubs on the in-memory network.
A owns object x; B holds a proxy of x and hands it to C, several times and nested in a list; after introduction C must
hold ONE proxy (while it holds it) that designates A's original x: calls through it reach x, and sending it home to A
yields x itself."""
import gc
from harness import implenv as E
from harness.implenv import Net, make_tub, pems_sorted, quiet, Referenceable


class Obj(Referenceable):
    def __init__(self):
        self.pings = 0
        self.got = []

    def remote_ping(self):
        self.pings += 1
        return self.pings

    def remote_take(self, x):
        self.got.append(x)
        return len(self.got)


def settle(net, res=None, n=1):
    for i in range(6):
        E.turn()
        net.run()
        if res is None or len(res) >= n:
            break
        E.clock.advance(1)


def scenario(order):
    """order: permutation index deciding which Tub plays A, B, C (tub ids differ, so master/slave roles differ)"""
    E.reset_clock()
    net = Net()
    pems = [p for _, p in pems_sorted(3)]
    names = ["a", "b", "c"]
    tubs = {}
    for role, idx in zip(names, order):
        tubs[role] = make_tub(net, role, pems[idx])
    A, B, C = tubs["a"], tubs["b"], tubs["c"]
    x, y = Obj(), Obj()
    csink = Obj()
    fx, fy = A.registerReference(x), A.registerReference(y)
    fc = C.registerReference(csink)
    got = {}
    B.getReference(fx).addCallback(lambda r: got.setdefault("x", r))
    B.getReference(fy).addCallback(lambda r: got.setdefault("y", r))
    B.getReference(fc).addCallback(lambda r: got.setdefault("c", r))
    settle(net)
    problems = []
    if set(got) != {"x", "y", "c"}:
        return [("oracle/gift-setup-failed", "B could not obtain its references: %r" % (sorted(got),))], 0
    res = []
    got["c"].callRemote("take", got["x"]).addBoth(res.append)
    settle(net, res, 1)
    got["c"].callRemote("take", [got["x"], got["y"], got["x"]]).addBoth(res.append)
    settle(net, res, 2)
    got["c"].callRemote("take", got["x"]).addBoth(res.append)
    settle(net, res, 3)
    if res != [1, 2, 3]:
        problems.append(("oracle/gift-not-delivered", "calls carrying gifts returned %r" % ([getattr(r, "type", r) for r in res],)))
        return problems, 0
    g1, (g2, gy, g3), g4 = csink.got
    from foolscap.referenceable import RemoteReference
    if not all(isinstance(g, RemoteReference) for g in (g1, g2, g3, g4, gy)):
        problems.append(("oracle/gift-identity-lost", "gifts arrived as %r" % (csink.got,)))
        return problems, 0
    if not (g1 is g2 is g3 is g4):
        problems.append(("oracle/gift-different-proxy-while-held", "the same gift arrived as different proxies while held: %r"
                         % ([id(g) for g in (g1, g2, g3, g4)],)))
    if gy is g1:
        problems.append(("oracle/proxy-shared-by-objects", "gifts of two different objects arrived as one proxy"))
    # calls through the gift reach the original objects
    out = []
    g1.callRemote("ping").addBoth(out.append)
    gy.callRemote("ping").addBoth(out.append)
    settle(net, out, 2)
    if (x.pings, y.pings) != (1, 1):
        problems.append(("oracle/call-misrouted", "calls through gifts of x and y reached x %d times, y %d times (results %r)"
                         % (x.pings, y.pings, [getattr(r, "type", r) for r in out])))
    # the gift sent home to A arrives as the original
    out2 = []
    gy.callRemote("take", g1).addBoth(out2.append)
    settle(net, out2, 1)
    if len(y.got) != 1 or y.got[0] is not x:
        problems.append(("oracle/home-not-original", "C's gift proxy of x sent to A arrived as %r" % (y.got,)))
    # C's proxy and B's proxy are different objects in different Tubs but B sending it again after C dropped it works
    del g1, g2, g3, g4
    del csink.got[:]
    gc.collect()
    settle(net)
    res2 = []
    got["c"].callRemote("take", got["x"]).addBoth(res2.append)
    settle(net, res2, 1)
    if len(csink.got) != 1 or not isinstance(csink.got[0], RemoteReference):
        problems.append(("oracle/gift-not-delivered", "gift sent again after the recipient dropped it: %r %r" % (res2, csink.got)))
    else:
        out3 = []
        csink.got[0].callRemote("ping").addBoth(out3.append)
        settle(net, out3, 1)
        if x.pings != 2:
            problems.append(("oracle/call-misrouted", "call through the re-sent gift did not reach x: %r" % (out3,)))
    for t in (A, B, C):
        t.stopService()
    E.turn()
    return problems, 1


# ------------------------------------------------------------------------------------------------------------
# four Tubs: the gifter holds proxies from TWO origins whose connection-local ids collide
class Keeper(Referenceable):
    """a registered target that can hand out / take objects"""

    def __init__(self):
        self.obj = None
        self.got = None

    def remote_get(self):
        return self.obj

    def remote_set2(self, obj1, obj2):
        self.got = (obj1, obj2)
        return True


class Thing(Referenceable):
    def __init__(self, name):
        self.name = name

    def remote_whoami(self):
        return [self.name, id(self)]


def run_net(net, blocked=None, maxsteps=100000):
    """deliver everything deliverable, except on links for which blocked(link) holds"""
    n = 0
    while True:
        E.turn()
        c = [ch for ch in net.deliverable() if not (blocked and blocked(ch[0]))]
        if not c:
            return n
        net.step(c[0])
        n += 1
        if n > maxsteps:
            raise RuntimeError("no quiescence")


def scenario4(order, delay):
    """alice (A) and dave (D) own one otherwise unreferenced Thing each; bob (B) holds a proxy of both -- each the 2nd
    object sent on its connection, so both carry the same clid -- gives both to carol (C) in ONE call and forgets them at
    once.  delay: carol's introduction to dave's Tub is held back until bob's releases have reached the owners."""
    import weakref
    from foolscap.referenceable import RemoteReference
    E.reset_clock()
    net = Net()
    pems = [p for _, p in pems_sorted(4)]
    tubs = {}
    for role, idx in zip("abcd", order):
        tubs[role] = make_tub(net, role, pems[idx])
    A, B, C, D = tubs["a"], tubs["b"], tubs["c"], tubs["d"]
    alice, carol, dave = Keeper(), Keeper(), Keeper()
    fa, fc, fd = A.registerReference(alice), C.registerReference(carol), D.registerReference(dave)
    got = {}
    for k, f in (("a", fa), ("c", fc), ("d", fd)):
        B.getReference(f).addCallback(lambda r, k=k: got.setdefault(k, r))
    run_net(net)
    if set(got) != {"a", "c", "d"}:
        return [("oracle/gift-setup-failed", "bob could not reach alice, carol, dave: %r" % (sorted(got),))], 0
    tx, ty = Thing("alice's thing"), Thing("dave's thing")
    ids = {"alice's thing": id(tx), "dave's thing": id(ty)}
    wx, wy = weakref.ref(tx), weakref.ref(ty)
    alice.obj, dave.obj = tx, ty
    prox = {}
    got["a"].callRemote("get").addBoth(lambda r: prox.setdefault("x", r))
    got["d"].callRemote("get").addBoth(lambda r: prox.setdefault("y", r))
    run_net(net)
    alice.obj = dave.obj = None
    del tx, ty
    gc.collect()
    if not all(isinstance(prox.get(k), RemoteReference) for k in ("x", "y")):
        return [("oracle/gift-setup-failed", "bob did not get proxies: %r" % (prox,))], 0
    same_clid = prox["x"].tracker.clid == prox["y"].tracker.clid
    if wx() is None or wy() is None:
        return [("oracle/released-early", "an object died although bob holds a proxy of it")], 0
    # bob hands both to carol in one call and forgets them
    res = []
    got["c"].callRemote("set2", obj1=prox["x"], obj2=prox["y"]).addBoth(res.append)
    prox.clear()
    gc.collect()

    def blocked(link):
        pair = {getattr(link, "client_tub", None), getattr(link, "server_tub", None)}
        return delay and pair == {C, D}
    run_net(net, blocked)          # everything except carol <-> dave: bob's decrefs (if any) reach the owners
    gc.collect()
    run_net(net, blocked)
    run_net(net)                   # now the introduction to dave's Tub completes
    for i in range(3):
        if res:
            break
        E.clock.advance(130)
        run_net(net)
    problems = []
    cfg = "roles %r, clids collide: %s, carol<->dave delayed: %s" % (list(order), same_clid, bool(delay))
    if res != [True] or carol.got is None:
        problems.append(("oracle/gift-not-delivered", "the call carrying two gifts (from two different owners) did not complete: %r; %s"
                         % ([getattr(r, "value", r) for r in res], cfg)))
    else:
        for p, owner, name in ((carol.got[0], A, "alice's thing"), (carol.got[1], D, "dave's thing")):
            if not isinstance(p, RemoteReference):
                problems.append(("oracle/gift-identity-lost", "carol received %r for %s; %s" % (p, name, cfg)))
                continue
            if p.getRemoteTubID() != owner.tubID:
                problems.append(("oracle/call-misrouted", "carol's proxy for %s points at another Tub; %s" % (name, cfg)))
            out = []
            p.callRemote("whoami").addBoth(out.append)
            run_net(net)
            if out != [[name, ids[name]]]:
                problems.append(("oracle/call-misrouted", "a call through carol's proxy for %s returned %r, expected the original "
                                 "object %r; %s" % (name, [getattr(r, "value", r) for r in out], [name, ids[name]], cfg)))
    for t in (A, B, C, D):
        t.stopService()
    E.turn()
    return problems, (1 if same_clid else 0)


def gifts(ctx):
    import itertools
    with quiet():
        for order in itertools.permutations(range(3)):
            try:
                problems, ok = scenario(order)
            except Exception as e:
                import traceback
                problems, ok = [("oracle/gift-exception", "gift scenario raised: %s" % traceback.format_exc()[-800:])], 0
            ctx.case(["gift", list(order)], nontrivial=bool(ok))
            ctx.hist("gift_scenario", "held" if not problems else problems[0][0])
            for sig, text in problems:
                ctx.fail(sig, "%s; three Tubs, role order %r" % (text, list(order)), replay=dict(scenario="gift", order=list(order)))
        for order in [(0, 1, 2, 3), (3, 2, 1, 0), (1, 3, 0, 2), (2, 0, 3, 1)]:
            for delay in (True, False):
                try:
                    problems, ok = scenario4(order, delay)
                except Exception as e:
                    import traceback
                    problems, ok = [("oracle/gift-exception", "four-Tub gift scenario raised: %s" % traceback.format_exc()[-800:])], 0
                ctx.case(["gift4", list(order), delay], nontrivial=bool(ok))
                ctx.hist("gift4_scenario", "held" if not problems else problems[0][0])
                for sig, text in problems:
                    ctx.fail(sig, text, replay=dict(scenario="gift4: two origins with colliding clids gifted in one call, gifter "
                                                    "drops both, recipient's link to the second owner delayed",
                                                    order=list(order), delay=delay))
