#!/bin/bash
# run every check's thorough tier once (in the current directory's copy of /verif); prints one line per property
./setup.sh > /dev/null 2>&1
for i in 01 02 03 04 05 06 07 08 09 10 11 12 13 14 15 16 17 18 19 20; do
  s=$(date +%s); ./check C$i --tier thorough > thorough_C$i.log 2>&1; rc=$?
  echo "C$i rc=$rc $(( $(date +%s)-s ))s viol=$(grep -c '^VIOLATION' thorough_C$i.log) known=$(grep -c '^KNOWN-FINDING' thorough_C$i.log)"
  grep '^VIOLATION' thorough_C$i.log
done
