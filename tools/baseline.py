#!/usr/bin/env python3
"""Run /repo's pinned suite (guard off) and compare with BASELINE.json's 384 stable passes."""
import json, os, subprocess, sys, tempfile, xml.etree.ElementTree as ET
repo = sys.argv[1] if len(sys.argv) > 1 else "/repo"
base = json.load(open("/root/.vp/BASELINE.json"))
out = tempfile.mktemp(suffix=".xml", dir="/var/tmp")
env = {k: v for k, v in os.environ.items() if k != "WARNER_FOOLSCAP_VERIF"}
subprocess.run(["/venv/bin/python", "-m", "pytest", "-q", "-p", "no:cacheprovider", "--timeout=900",
                "--continue-on-collection-errors", "--junitxml=" + out], cwd=repo, env=env, capture_output=True)
passed = set()
for tc in ET.parse(out).getroot().iter("testcase"):
    if not any(ch.tag in ("failure", "error", "skipped") for ch in tc):
        passed.add("%s::%s" % (tc.get("classname"), tc.get("name")))
os.unlink(out)
missing = [t for t in base["stable_pass"] if t not in passed]
print("passed %d; stable baseline %d; missing from baseline: %d" % (len(passed), len(base["stable_pass"]), len(missing)))
for t in missing:
    print("  MISSING", t)
sys.exit(1 if missing else 0)
