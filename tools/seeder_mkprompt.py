import json,sys
pid=sys.argv[1]; rnd=sys.argv[2] if len(sys.argv)>2 else "r5"
props={json.loads(l)['id']:json.loads(l) for l in open('/verif/properties.jsonl')}
p=props[pid]
earlier=json.load(open('/tmp/seedtools/earlier.json')).get(pid,[])
wt="/tmp/seed8/%s"%pid; out="/tmp/seed8/%s-out"%pid
print(f"""You are testing how well a verification effort can detect regressions in the Python library warner/foolscap (a Twisted-based RPC / object-capability protocol: Banana token serialization, TLS connection negotiation, remote reference tracking, distributed logging). You will NOT see the verification machinery; your job is to produce realistic, subtle, property-breaking code changes that it ought to catch.

THE PROPERTY (this is all you get about what is being verified):
{json.dumps(p, indent=1)}

YOUR WORKSPACE
- A private git worktree of the library: {wt} (source under {wt}/src/foolscap). Work ONLY there and in your output directory {out} (create it). Never touch /repo or /verif, never run `git commit`, never look into /verif.
- Python: /venv/bin/python with PYTHONPATH={wt}/src (e.g. `cd {wt} && PYTHONPATH={wt}/src /venv/bin/python demo.py`). No network. Nothing can be installed.
- The library's existing test suite must still pass with your change: `python3 /tmp/seedtools/baseline.py {wt}` must end with "missing from baseline: 0" (it runs pytest in the worktree, ~40 s, and compares with the 384 tests that pass on the pinned tree; about 118 other tests always fail in this sandbox because `Tub()` cannot create certificates here - ignore those). Re-run it once if a single test in test_negotiate flakes.
- Sandbox facts: `Tub()` without arguments fails (pyOpenSSL lacks X509Req); use `from mkpem import mkpem` (sys.path.insert(0, '/tmp/seedtools')) and `Tub(certData=mkpem())`. For demonstrations prefer in-process set-ups without real sockets where possible: foolscap.test.common has helpers (Loopback transports, TargetMixin-style Broker pairs, ShouldFailMixin); foolscap.storage.serialize/unserialize and direct Banana/Broker instances with fake transports work without TLS; twisted.internet.task.Clock can replace module-level `reactor` names; real loopback TCP with twisted's reactor also works if you need whole Tubs (keep run time < 60 s).

THE TASK
Produce TWO independent changes (s1, s2) to the library source (not to tests) such that each one:
 1. BREAKS THE PROPERTY above for some input / schedule / history (a genuine semantic violation of the property as stated, not merely a changed log message or a performance change, unless the property is about that);
 2. still imports/compiles and passes the existing test suite (baseline check above);
 3. looks like something a maintainer could plausibly commit: a refactoring, an "optimisation", a clean-up, a small feature, a moved statement, a changed guard, a helper extracted with a subtle difference, changed default, caching, re-ordered teardown ... 5-60 changed lines, with a plausible comment or rationale. No sabotage markers, no dead code named "bug".
 4. NEEDS SOMETHING SPECIFIC TO MANIFEST: a particular interleaving or packet boundary, a crash or fault at a particular point, a multi-step sequence of operations, an unusual but legal input, a non-default option, or two cooperating sites that each look fine alone. Ordinary use (and the existing tests) must not expose it at once.
 5. comes with a demonstration program that exits 0 on the UNCHANGED worktree and exits 1 (printing what went wrong) with the change applied. The demo must be deterministic, self-contained (one file, imports only the library, twisted, stdlib and /tmp/seedtools/mkpem.py), and finish in < 60 s.

Changes made for this property in earlier rounds (do something DIFFERENT: another code site, another mechanism, another part of the property's quantifier; the obvious places are used up, so look at helpers, option handling, error paths, teardown, module-level state, rarely used types, interactions between two features, other modules named in the property's anchors):
""" + "\n".join(" - "+e for e in earlier) + f"""

The two changes must differ from each other in code site and in what they need to manifest. Prefer violations of different sentences of the property.

PROCEDURE
 - Read the relevant source first (anchors in the property record point at files/functions). Think about which invariant each sentence of the property rests on and where a plausible edit silently breaks it.
 - For each change: edit the worktree, run the baseline, write the demo, confirm demo fails with the change; then `cd {wt} && git diff > {out}/s1.diff` (resp. s2.diff), `git checkout -- . ` to restore the clean tree, confirm the demo passes on the clean tree (exit 0), and that `git apply {out}/s1.diff` re-applies cleanly. Leave the worktree CLEAN at the end (git status shows no modifications; delete stray files you created in it).
 - Write {out}/s1_demo.py, {out}/s2_demo.py and {out}/s1_meta.json, {out}/s2_meta.json with keys: "property" ("{pid}"), "summary" (what was changed, where, with the plausible rationale - 2-5 sentences), "breaks" (which sentence of the property fails and how), "needs" (what specific input / schedule / history is required to see it), "ran" (the commands you ran and their outcomes: baseline line, demo exit codes on clean and changed tree).

FINAL MESSAGE: for each of s1 and s2 one paragraph (site, mechanism, what it needs, demo outcome clean/changed, baseline line). If you could only produce one valid change, say so plainly.
""")
