#!/usr/bin/env python3
"""markdown table of the seeded changes of one round: tools/seed_table.py r2|r3|s  (reads seeded/*/meta.json, notes/seed_first_runs.json)"""
import glob, json, os, re, sys
V = os.path.dirname(os.path.dirname(os.path.abspath(__file__)))
rnd = sys.argv[1]
pat = {"s": "-s[12]", "r2": "-r2s[12]", "r3": "-r3s[12]", "r4": "-r4s[12]", "r5": "-r5s[12]", "r6": "-r6s[12]", "r7": "-r7s[12]", "r8": "-r8s[12]"}[rnd]
first = json.load(open(os.path.join(V, "notes", "seed_first_runs.json"))).get({"r2": "round2", "r3": "round3", "r4": "round4", "r5": "round5", "r6": "round6", "r7": "round7", "r8": "round8"}.get(rnd, ""), {})
print("| Seed | Change (what it needs) | First run | Now |\n|---|---|---|---|")
for m in sorted(glob.glob(os.path.join(V, "seeded", "*", "meta.json"))):
    sid = os.path.basename(os.path.dirname(m))
    if not re.search(pat + "$", sid):
        continue
    j = json.load(open(m))
    now = "with input" if j.get("detected_with_input_by") else ("tie only" if j.get("detected_by") else "missed")
    summ = re.sub(r"\s+", " ", str(j.get("summary") or ""))
    summ = summ[:260] + ("..." if len(summ) > 260 else "")
    summ = summ.replace("|", "/")
    print("| %s | %s | %s | %s |" % (sid, summ, first.get(sid, "--"), now))
