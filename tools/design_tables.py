#!/usr/bin/env python3
"""refresh the generated tables of DESIGN.md (between <!-- name --> ... <!-- /name --> markers)"""
import glob, json, os, re, subprocess, sys
V = os.path.dirname(os.path.dirname(os.path.abspath(__file__)))
p = os.path.join(V, "DESIGN.md")
s = open(p).read()


def put(name, text):
    global s
    a, b = "<!-- %s -->" % name, "<!-- /%s -->" % name
    i, j = s.index(a), s.index(b)
    s = s[:i + len(a)] + "\n" + text.rstrip() + "\n" + s[j:]


for r in ("r2", "r3", "r4", "r5", "r6", "r7", "r8"):
    out = subprocess.run([sys.executable, os.path.join(V, "tools", "seed_table.py"), r], capture_output=True, text=True).stdout
    put("seed-table " + r, out)
def harmless_table(sub, marker):
  rows, quiet, alarm, inp, other = [], 0, 0, 0, 0
  for m in sorted(glob.glob(os.path.join(V, sub, "*", "meta.json"))):
      j = json.load(open(m))
      hid = os.path.basename(os.path.dirname(m))
      if "checks" not in j:
          other += 1
          rows.append("| %s | %s | not run: %s |" % (hid, re.sub(r"\s+", " ", str(j.get("summary", "")))[:150].replace("|", "/"), str(j.get("error", "?"))[:60]))
          continue
      st = "quiet (exit 0)"
      if j.get("alarm_with_input"):
          st = "ALARM WITH INPUT"; inp += 1
      elif j.get("alarm"):
          st = "tie broken (no-failing-input-found)"; alarm += 1
      else:
          quiet += 1
      rows.append("| %s | %s | %s |" % (hid, re.sub(r"\s+", " ", str(j.get("summary", "")))[:150].replace("|", "/"), st))
  put(marker, "Result of the final run: %d quiet, %d tie-broken reports without input, %d reports with an input, %d not run.\n\n"
      "| Patch | Change | Check of that property |\n|---|---|---|\n" % (quiet, alarm, inp, other) + "\n".join(rows))
  return quiet, alarm, inp, other


quiet, alarm, inp, other = harmless_table("harmless", "harmless-table")
q2, a2, i2, o2 = harmless_table("harmless2", "harmless2-table")
# final state per property
rows = []
for i in range(1, 21):
    pid = "C%02d" % i
    ev = json.load(open(os.path.join(V, "evidence", pid + ".json")))
    cov = ev["coverage"]
    seeds = sorted(glob.glob(os.path.join(V, "seeded", pid + "-*", "meta.json")))
    winp = sum(1 for m in seeds if json.load(open(m)).get("detected_with_input_by"))
    harm = sorted(glob.glob(os.path.join(V, "harmless", pid + "-h*", "meta.json"))) + sorted(glob.glob(os.path.join(V, "harmless2", pid + "-g*", "meta.json")))
    hq = sum(1 for m in harm if "checks" in json.load(open(m)) and not json.load(open(m)).get("alarm"))
    known = sum(1 for e in json.load(open(os.path.join(V, "known_findings.json")))["findings"] if e["property"] == pid and e["status"] == "known")
    fixed = sum(1 for e in json.load(open(os.path.join(V, "known_findings.json")))["findings"] if e["property"] == pid and e["status"] == "fixed")
    rows.append("| %s | %d | %d | %s | %s | %d / %d | %d / %d | %d fixed, %d known |" % (
        pid, len(cov.get("theorems", [])), cov["obligations"], cov.get("evaluations", "-"), ev["wall_s"], winp, len(seeds), hq, len(harm), fixed, known))
put("final-table", "| Prop | property theorems (props/) | Qed-closed statements in the closure | evaluations (quick) | quick wall s | seeded changes caught with input | "
    "behaviour-preserving patches quiet | findings |\n|---|---|---|---|---|---|---|---|\n" + "\n".join(rows))
open(p, "w").write(s)
print("tables refreshed: harmless quiet=%d alarm=%d with_input=%d other=%d; round 2 quiet=%d alarm=%d with_input=%d" % (quiet, alarm, inp, other, q2, a2, i2))
