#!/usr/bin/env python3
"""refresh the generated tables of DESIGN.md (between <!-- name --> ... <!-- /name --> markers)"""
import glob, json, os, re, subprocess, sys
V = os.path.dirname(os.path.dirname(os.path.abspath(__file__)))
p = os.path.join(V, "DESIGN.md")
s = open(p).read()


def put(name, text):
    global s
    a, b = "<!-- %s -->" % name, "<!-- /%s -->" % name
    i, j = s.index(a), s.index(b)
    s = s[:i + len(a)] + "\n" + text.rstrip() + "\n" + s[j:]


for r in ("r2", "r3"):
    out = subprocess.run([sys.executable, os.path.join(V, "tools", "seed_table.py"), r], capture_output=True, text=True).stdout
    put("seed-table " + r, out)
rows, quiet, alarm, inp, other = [], 0, 0, 0, 0
for m in sorted(glob.glob(os.path.join(V, "harmless", "*", "meta.json"))):
    j = json.load(open(m))
    hid = os.path.basename(os.path.dirname(m))
    if "checks" not in j:
        other += 1
        rows.append("| %s | %s | not run: %s |" % (hid, re.sub(r"\s+", " ", str(j.get("summary", "")))[:150].replace("|", "/"), str(j.get("error", "?"))[:60]))
        continue
    st = "quiet (exit 0)"
    if j.get("alarm_with_input"):
        st = "ALARM WITH INPUT"; inp += 1
    elif j.get("alarm"):
        st = "tie broken (no-failing-input-found)"; alarm += 1
    else:
        quiet += 1
    rows.append("| %s | %s | %s |" % (hid, re.sub(r"\s+", " ", str(j.get("summary", "")))[:150].replace("|", "/"), st))
put("harmless-table", "Result of the final run: %d quiet, %d tie-broken reports without input, %d reports with an input, %d not run.\n\n"
    "| Patch | Change | Check of that property |\n|---|---|---|\n" % (quiet, alarm, inp, other) + "\n".join(rows))
open(p, "w").write(s)
print("tables refreshed: harmless quiet=%d alarm=%d with_input=%d other=%d" % (quiet, alarm, inp, other))
