#!/bin/bash
# run every check's thorough tier (3 at a time) in the current copy of /verif; one line per property, then coqchk over all closures
./setup.sh > /dev/null 2>&1
run1() { i=$1; s=$(date +%s); ./check C$i --tier thorough > thorough_C$i.log 2>&1; rc=$?; echo "C$i rc=$rc $(( $(date +%s)-s ))s viol=$(grep -c '^VIOLATION' thorough_C$i.log) known=$(grep -c '^KNOWN-FINDING' thorough_C$i.log) $(grep '^VIOLATION' thorough_C$i.log | cut -c1-160 | tr '\n' ';')"; }
export -f run1
echo 03 01 10 17 18 08 09 15 05 13 07 11 19 14 16 06 20 04 02 12 | tr ' ' '\n' | xargs -P 3 -I{} bash -c 'run1 {}'
echo "--- coqchk"
bash tools/coqchk_all.sh 2>&1 | tail -40
