#!/usr/bin/env python3
"""Run our checks against a behaviour-preserving change (false-alarm measurement).

usage: harmtest.py <id> <property> <patch> [--meta harm.json] [--also Cxx,...] [--out DIR]
A scratch worktree of /repo gets the patch; the baseline must pass; ./check <property> runs with VERIF_REPO=<scratch>.
Result: <out>/<id>/{patch.diff,meta.json} with rc and VIOLATION lines per check (out defaults to /verif/harmless).
"""
import argparse, json, os, shutil, subprocess, sys, time

VERIF = os.path.dirname(os.path.dirname(os.path.abspath(__file__)))


def sh(cmd, **kw):
    return subprocess.run(cmd, shell=True, capture_output=True, text=True, **kw)


def main():
    ap = argparse.ArgumentParser()
    ap.add_argument("hid")
    ap.add_argument("prop")
    ap.add_argument("patch")
    ap.add_argument("--meta")
    ap.add_argument("--also", default="")
    ap.add_argument("--out", default="/verif/harmless")
    ap.add_argument("--skip-baseline", action="store_true")
    a = ap.parse_args()
    scratch = "/tmp/harmrun_%s" % a.hid
    shutil.rmtree(scratch, ignore_errors=True)
    sh("git -C /repo worktree prune; git -C /repo worktree add -q --detach %s HEAD" % scratch)
    out = dict(id=a.hid, property=a.prop)
    try:
        r = sh("cd %s && git apply %s" % (scratch, os.path.abspath(a.patch)))
        if r.returncode != 0:
            out["error"] = "patch does not apply: " + r.stderr[-400:]
            print(json.dumps(out))
            return 2
        if not a.skip_baseline:
            r = sh("python3 %s/tools/baseline.py %s" % (VERIF, scratch))
            if "missing from baseline: 0" not in r.stdout:
                r = sh("python3 %s/tools/baseline.py %s" % (VERIF, scratch))
            out["baseline_ok"] = "missing from baseline: 0" in r.stdout
        checks = {}
        for pid in [a.prop] + [x for x in a.also.split(",") if x]:
            t0 = time.time()
            r = sh("cd %s && VERIF_EVIDENCE_DIR=%s_evidence VERIF_REPO=%s ./check %s" % (VERIF, scratch, scratch, pid))
            v = [l for l in r.stdout.splitlines() if l.startswith("VIOLATION")]
            what = [l.strip()[:600] for l in r.stdout.splitlines() if l.startswith("  what:")]
            checks[pid] = dict(rc=r.returncode, wall_s=round(time.time() - t0, 1), violations=[l[:300] for l in v], what=what[:4])
        out["checks"] = checks
        out["alarm"] = [p for p, c in checks.items() if c["rc"] != 0]
        out["alarm_with_input"] = [p for p, c in checks.items() if any("no-failing-input-found" not in v for v in c["violations"])]
    finally:
        sh("git -C /repo worktree remove --force %s" % scratch)
        shutil.rmtree(scratch, ignore_errors=True)
        shutil.rmtree(scratch + "_evidence", ignore_errors=True)
    d = os.path.join(a.out, a.hid)
    os.makedirs(d, exist_ok=True)
    if os.path.abspath(a.patch) != os.path.abspath(os.path.join(d, "patch.diff")):
        shutil.copy(a.patch, os.path.join(d, "patch.diff"))
    meta = {}
    if a.meta and os.path.exists(a.meta):
        try:
            meta = json.load(open(a.meta))
        except Exception as e:
            meta = {"meta_unreadable": str(e)}
    meta.update(out)
    json.dump(meta, open(os.path.join(d, "meta.json"), "w"), indent=1)
    print(json.dumps({k: meta.get(k) for k in ("id", "baseline_ok", "alarm", "alarm_with_input")}))
    return 0


if __name__ == "__main__":
    sys.exit(main())
