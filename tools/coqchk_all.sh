#!/bin/bash
# Independent re-check of every property closure with coqchk (takes ~25 min for all 20); prints the axiom summary.
cd "$(dirname "$0")/../coq"
for m in ${@:-C01 C02 C03 C04 C05 C06 C07 C08 C09 C10 C11 C12 C13 C14 C15 C16 C17 C18 C19 C20}; do
  echo "== $m"
  timeout 3000 coqchk -silent -o -Q . Verif Verif.props.$m 2>&1 | grep -E "Axioms|type-in-type|unsafe|positivity|Error|error" 
done
