"""Tub() cannot create a certificate in this sandbox (pyOpenSSL lacks X509Req). Use Tub(certData=mkpem())."""
from cryptography import x509
from cryptography.x509.oid import NameOID
from cryptography.hazmat.primitives import hashes, serialization
from cryptography.hazmat.primitives.asymmetric import ec
import datetime
def mkpem():
    key = ec.generate_private_key(ec.SECP256R1())
    name = x509.Name([x509.NameAttribute(NameOID.COMMON_NAME, u"newpb_thingy")])
    now = datetime.datetime(2020, 1, 1)
    cert = (x509.CertificateBuilder().subject_name(name).issuer_name(name).public_key(key.public_key())
            .serial_number(1).not_valid_before(now).not_valid_after(now + datetime.timedelta(days=36500))
            .sign(key, hashes.SHA256()))
    return key.private_bytes(serialization.Encoding.PEM, serialization.PrivateFormat.TraditionalOpenSSL,
                             serialization.NoEncryption()) + cert.public_bytes(serialization.Encoding.PEM)
