#!/bin/bash
# Re-run stored seeded changes against the current checks, in N parallel private copies of /verif.
# usage: tools/reseed.sh <N> <glob-of-seed-ids...>   e.g. tools/reseed.sh 4 'C*-r4s*'
# Each worker copies /verif (with its _build) to /tmp/vfw<k>, runs tools/seedtest.py --skip-baseline there with
# --out /verif/seeded (meta.json is merged in place), and removes the copy afterwards.
N=$1; shift
cd /verif
ids=$(cd seeded && ls -d $@ 2>/dev/null | sort)
i=0
for k in $(seq 1 $N); do : > /tmp/reseed_list_$k; done
for s in $ids; do k=$(( i % N + 1 )); echo $s >> /tmp/reseed_list_$k; i=$((i+1)); done
for k in $(seq 1 $N); do
  (
    rm -rf /tmp/vfw$k; mkdir -p /tmp/vfw$k
    rsync -a --exclude .git --exclude replays --exclude evidence /verif/ /tmp/vfw$k/
    mkdir -p /tmp/vfw$k/replays /tmp/vfw$k/evidence
    for s in $(cat /tmp/reseed_list_$k); do
      p=${s%%-*}
      also=$(python3 -c "import json;m=json.load(open('/verif/seeded/$s/meta.json'));print(','.join(x for x in (m.get('checks') or {}) if x!='$p'))")
      python3 /tmp/vfw$k/tools/seedtest.py $s $p /verif/seeded/$s/patch.diff /verif/seeded/$s/demo.py --skip-baseline --meta /verif/seeded/$s/meta.json --out /verif/seeded ${also:+--also $also}
    done
    rm -rf /tmp/vfw$k /tmp/reseed_list_$k
  ) > /tmp/reseed_$k.log 2>&1 &
done
wait
cat /tmp/reseed_*.log
