#!/bin/bash
# Re-run the stored behaviour-preserving patches (harmless/, harmless2/) against the current checks, in N private copies of /verif.
# usage: tools/reharm.sh <N>
N=$1
cd /verif
i=0
for k in $(seq 1 $N); do : > /tmp/reharm_list_$k; done
for sub in harmless harmless2; do for d in $(ls -d $sub/C* | sort); do k=$(( i % N + 1 )); echo "$sub $(basename $d)" >> /tmp/reharm_list_$k; i=$((i+1)); done; done
for k in $(seq 1 $N); do
  (
    rm -rf /tmp/vfh$k; mkdir -p /tmp/vfh$k
    rsync -a --exclude .git --exclude replays --exclude evidence /verif/ /tmp/vfh$k/
    mkdir -p /tmp/vfh$k/replays /tmp/vfh$k/evidence
    while read sub id; do
      p=${id%%-*}
      python3 /tmp/vfh$k/tools/harmtest.py $id $p /verif/$sub/$id/patch.diff --skip-baseline --meta /verif/$sub/$id/meta.json --out /verif/$sub
    done < /tmp/reharm_list_$k
    rm -rf /tmp/vfh$k /tmp/reharm_list_$k
  ) > /tmp/reharm_$k.log 2>&1 &
done
wait
cat /tmp/reharm_*.log | tail -130
