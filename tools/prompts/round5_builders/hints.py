H = {
"C01": ("C01", """     - `canon` inverts the denotation and the in-band set-vocab / add-vocab switch are only checked per case by vm_compute: prove them
       (canon (denote t) = t for wf terms; receiver_view = sender_view for any interleaving of tokens and table replacements).
     - graphs whose tuple directly holds a reference to a still-open immutable are outside the theorem guard although the code handles them
       (Deferred completion in TupleUnslicer / FrozenSet): model the pending-completion mechanism (placeholder + update callbacks + the
       AsyncAND ready_deferred) and widen the guard, or prove exactly which shapes complete; tie it to slicers/tuple.py, set.py, dict.py, util.AsyncAND.
     - compose with C07: state the end-to-end theorem "for every chunking of the sender's bytes the delivered graph is the sent graph" from
       stream/chunk independence of BananaRecv + C01_run_slice (one statement in props/C01.v).
     - the sender side (slicer stack, ScopedSlicer.references, trackReferences, RootSlicer) is modelled by `slice` and tied by ~60 shape
       facts: consider translating slicerForObject / registerRefID / the SlicerTable lookups statement by statement."""),
"C02C12": ("C02 and C12", """     - C02: regexp constraints, Copyable/Failure constraints, Shared, RemoteInterface/their-reference arguments, __ignoreUnknown__/
       __acceptUnknown__ method schemas are outside the model: bring the ones that user code can declare most often (RemoteInterfaceConstraint,
       CopyableConstraint/FailureConstraint attribute checks, the two unknown-argument flags of RemoteMethodSchema) into Schema.v with
       checkObject <-> satisfies and the recv_call theorem.
     - C02: the receive path (CallUnslicer stages, ArgumentUnslicer positional/keyword bookkeeping, AnswerUnslicer) -- how much is translated
       statement by statement vs hand-written?  Translate ArgumentUnslicer.receiveChild / receiveClose and CallUnslicer.receiveChild's staging.
     - C02: the assumption "the positional-argument count token always equals the number of positional wire trees" excludes streams a hostile
       peer can send: remove it.
     - C12: values are trees (sharing only in fixed cases) and vocabulary-word byte strings are oracle-only: add shared sub-objects
       (reference tokens under every constraint) and VOCAB tokens to the model's slice and to the induction.
     - C12: "symmetrically for results" -- is the result direction a theorem or only the argument direction?"""),
"C03": ("C03", """     - the byte-level part (Answer/ErrorUnslicer reaching getRequest / complete / fail at a cut position) is 'not modelled in Coq: tied by
       shape facts and exercised by the cut sweep'.  Model the answer/error receive path as a small unslicer state machine over tokens
       (reqID token -> getRequest, body, CLOSE -> complete/fail; Violation anywhere -> fail exactly that request), compose it with the token
       level (lib/Token.v, lib/Recv.v generic chunk independence) and prove: for every byte stream prefix (= cut position) followed by
       connectionLost every issued two-way request has fired exactly once.  That turns 'connection loss at any byte position in either
       direction' into a theorem instead of a sweep.
     - the sender direction: serialization errors (sendFailed / RootSlicer Deferred errback) at any token of the outgoing call.
     - the eventual-send queue entries queued by foolscap itself: reuse lib/Eventual.v (C17's model) instead of an ad-hoc list if possible."""),
"C04": ("C04", """     - 'the receive path (Banana.handleData, CallUnslicer) is tied by trace validation only' and 'connection loss is outside the model
       (doNextCall's `if self.disconnected` branch is not exercised)': add Disconnect to the model and prove order/at-most-once across it
       (nothing is entered after loss; nothing is entered twice), with the correspondence exercising it.
     - the gift stall: model the ready_deferred chain of ArgumentUnslicer/CallUnslicer (AsyncAND of unresolved their-references) instead of a
       stand-in flag, so that 'a call is runnable iff all its gifts resolved' is a translated definition.
     - sender pause while streaming a large argument (producer pause / RootSlicer.sendQueue + slicerStack): is the interleaving of
       callRemote issued during a paused send part of the model's op alphabet with a theorem, or oracle only?  Make it a theorem.
     - compose with the eventual queue model of C17 (callRemoteOnly / eventually ordering) rather than assuming FIFO."""),
"C05": ("C05", """     - the receive-loop model abstracts blocks to hello/decision/error/junk and 'RPC bytes between header blocks are exercised by the oracle
       only'; exception classes on the plaintext / error / timeout paths are hand-modelled: translate handlePLAINTEXTServer/Client's
       guards and the phase dispatch of dataReceived (you may reuse lib/NegSplit.v, the proved block splitter of C13) so that 'no
       brokerAttached before evaluateNegotiationVersion1's identity checks passed' is a theorem over arbitrary byte input, any chunking.
     - Tub.getReference / _getReference / getBrokerForTubRef: 'getReference on a FURL naming X succeeds over it only if ...' -- translate the
       lookup key path (SturdyRef.getTubRef, TubRef equality/hash, brokers dict) and prove the key equals the proven tubid.
     - anonymous / no-certificate peers: `assert theirTubID` (runs under -O?) -- state precisely what the theorem needs.
     - listeners with redirects and Tubs without certificate are outside the model: bring them in or prove they cannot attach a broker."""),
"C06": ("C06", """     - their-reference (gifts) and my-reference ARGUMENTS are not generated/modelled ('they create outbound state'): a peer-supplied
       their-reference makes the Tub dial a URL and call getReferenceByName elsewhere -- decide whether that is 'causing code to run' and
       model at least that it reaches no local object; my-reference arguments create RemoteReference proxies: show they cannot alias a
       local object.
     - 'only through methods exposed for remote use': is the remote_ prefix + doRemoteCall/getattr path translated (T) or a shape fact?
       include RemoteInterface-restricted method sets, callable-by-reference (negative clids -> bound methods), and _doCall's branches.
     - 'without side effects': which state does the theorem say is unchanged on a refused request (tables, refcounts, name table,
       registry)?  State it against the whole broker+tub state record.
     - class instantiation: the registry lookup chain (RootUnslicer.open -> openRegistries -> CopyableRegistry / RemoteCopy metaclass
       auto-registration): translate the registration side too (what can put a class into the registry)."""),
"C07C11": ("C07 and C11", """     - C07's concrete instance runs POLICY unslicers; the standard unslicers (list/tuple/dict/set/unicode/decimal/none/bool/reference/
       vocab/copyable + PB call/answer/error) are covered by the oracle only.  lib/Obj.v (C01) already has an unslicer stack machine for the
       storage root: instantiate the generic Recv/BananaRecv theorems with it (and, if feasible, with a constraint-checking variant built on
       lib/Schema.v's tasters) so that chunk independence / 'violation discards exactly the offending top-level object' / 'following objects
       unaffected' are theorems for the STANDARD unslicers, with a correspondence against the real RootUnslicer / StorageBanana.
     - 'no exception escapes dataReceived' is checked, not proved: the model could carry an explicit Exc outcome for every callback and the
       theorem 'dataReceived's result type never carries Exc' over the translated except-clauses of dataReceived.
     - handleData is a hand transcription validated by correspondence: move what you can to statement-by-statement translation
       (the header scan, the per-typebyte dispatch table, the rejected/skip bookkeeping); StringChain (buffer primitive) model + theorem
       that popleft/trim/len behave as a byte queue.
     - C11: the schema bound B of a real constraint tree is computed by the harness in Python: define it in Coq over lib/Schema.v's ctr
       (maxDepth/maxSize style), prove `held bytes <= bound c` for the constraint-checking instance, and compare with the real
       constraint objects' maxSize()/maxDepth() where the source has them.
     - ERROR-text construction, sendError truncation, the 'after abandon ignore all input' flag: all translated?"""),
"C08C09": ("C08 and C09", """     - third-party gifts (their-reference, Tub.getReference, makeGift / remote_decgift / the gift table keyed by (broker, clid)) are not in
       the Coq model: add the three-party model (giver, owner, recipient) and prove 'after introduction the recipient's proxy denotes the same
       original object', 'the giver's gift pin is released exactly once, after the recipient acknowledged', 'no leak of myGifts at quiescence'.
     - 'a proxy sent back to the side that owns the object arrives as the original object itself' (your-reference going home) and 'calls
       through any of these reach the original object': theorems exist -- are the slicer choices (ReferenceableSlicer vs YourReferenceSlicer
       vs TheirReferenceSlicer: `tracker.broker == broker`) translated or shape facts?
     - messages in flight: the model has one queue item per top-level object; bring the nested case in (a reference nested inside data
       of a call that is later rejected/discarded -- the known D9 leak -- state the exact guard of C09_no_leak_partial as 'no call carrying
       the reference was discarded' and prove necessity (refuted) and sufficiency).
     - both directions at once (O exports to H while H exports to O) and clid namespaces (positive/negative clids for methods).
     - connection loss: 'both sides forget everything' incl. activeLocalCalls / inboundDeliveryQueue (fix 30b3768) as part of the state record."""),
"C10": ("C10", """     - 'the receiver in lib/Send.v is a framing checker stricter than handleData', 'token values are abstracted', 'the counting receiver is
       tied only by shape facts and the oracle', 'the inbound delivery queue model and the wrap model are tied ... not by a vm_compute
       correspondence': add the missing correspondences; replace the framing checker by the C07 BananaRecv model (or prove the refinement
       between the two) so that sibling isolation is a theorem about the modelled receiver, not a stricter stand-in.
     - 'the caller's failure identifies the remote exception's type (by class name and ancestry)': CopiedFailure / FailureSlicer.getStateToCopy
       (parents list, type string, truncation order) -- translated?  prove ancestry preserved as a prefix-closed list under truncation limits.
     - the result direction (answer that cannot be serialized or violates the result schema on either side) and unknown method / unknown object.
     - hide-remote-exception-types wrapping: uniform wrapping theorem over all failure kinds incl. Violation and RemoteException itself."""),
"C13": ("C13", """     - the negotiation message codec: parseLines / sendBlock / the hello and decision block construction are hand-modelled? translate them
       and prove parse (format b) = b for every block the code can emit (keys without ':' / CR / LF), plus totality of parse on arbitrary bytes
       (malformed input only ever raises the negotiation error).
     - 'exactly one of them acts as decider' for ANY two endpoints incl. equal tubids / no tubid (unencrypted is gone?) -- check the
       comparison operator on equal ids and prove what happens.
     - 'with identical parameters': after switchToBanana both Brokers' parameters (version, vocab table index AND contents hash,
       my-incarnation etc.) -- state equality of the full parameter record, not only version+index.
     - out-of-order input: a decision arriving before a hello, a hello after a decision, second hello -- the phase machine
       (PLAINTEXT/ENCRYPTED/DECIDING/BANANA/ABANDONED) translated from dataReceived's dispatch, with the theorem 'any input in any phase
       either advances along the legal order or ends this attempt with the negotiation error and nothing else changes (Tub tables untouched)'.
     - the non-master does not check the decided version against its own range (recorded observation): does the property's
       'highest version both support' fail for a misbehaving master?  State the theorem for honest pairs and a refuted/partial for hostile ones."""),
"C14": ("C14", """     - 'every getReference fires within the connection timeout' is oracle-checked: the model counts waiters -- make waiters identified
       objects, add virtual time (Timeout step = the armed timer) and prove every waiter registered at time t is fired by t + CONNECTION_TIMEOUT
       (plus at most once).
     - the model delivers whole negotiation blocks and folds GET/101 into the dial step: refine to the phases the real code has (you may
       reuse C13's NegSplit for block boundaries) or prove the folding is a sound abstraction (stuttering refinement).
     - lookups queued before Tub.startService (prestart family) are outside the Coq model: add them.
     - several location hints in parallel + retries (TubConnector: remainingLocations / pendingConnections / pendingNegotiations /
       checkForFailure / checkForIdle, lib/Connector.v exists): prove 'connector finishes exactly once: success iff some attempt won, failure
       when all options are exhausted or the timer fires', and compose with Converge.
     - handle-old-duplicate-connections is off in the two-Tub model: bring the translated decision function into the model's step."""),
"C15": ("C15", """     - PING/PONG transparency is proved on a token-level model of handleData's dispatch, the byte-level tokenizer is only sampled: compose with
       lib/BananaRecv.v / lib/Token.v (C07) to get 'pings/pongs may appear between any two tokens, for every chunking' at byte level.
     - 'pending calls fail with DeadReferenceError' on timer teardown: compose with lib/Requests.v (C03's drained_after_loss) so the
       sentence is a theorem end-to-end (connectionTimedOut -> shutdown -> finish -> abandonAllRequests).
     - float arithmetic: the model uses integer ms / exact decimals while the code uses IEEE doubles (time.time() + EPSILON): state and
       prove the theorem's robustness to rounding (e.g. for any monotone rounding with relative error <= 2^-52 the 2T + slack bound still
       holds) or model with PrimFloat.
     - 'all timers are cancelled when the connection closes' for every closing path (connectionLost, shutdown, negotiation failure
       before connectionMade armed them, Broker.finish called twice).
     - the order of the two callbacks inside one reactor turn is not modelled (disjoint state claimed): prove commutation."""),
"C16": ("C16", """     - the environment (which Deferred / watcher / timer exists and may fire) is the hand-written part: derive the set of enabled events from
       the translated state instead (a getReference Deferred exists iff ..., a disconnect watcher is registered iff ...) and prove the
       enabledness predicate is exactly what the translated methods create/cancel.
     - Tub side: Tub.connectTo / Tub.stopService stopping all reconnectors, Tub._removeReconnector, startService starting queued ones
       (fix 6967c1e): model the Tub's reconnector set and prove 'after Tub.stopService no reconnector acts'.
     - delays are exact rationals vs IEEE doubles: prove the range theorem robust to rounding (or PrimFloat model of _retry's arithmetic:
       min(delay*factor, maxDelay), normalvariate jitter).
     - ReconnectionInfo state/lastAttempt/nextAttempt are white-listed as informational: they are user-visible -- model them and prove they
       agree with the real state (state == 'waiting' iff a timer is pending, etc.)."""),
"C17": ("C17", """     - the three `C17_pr_*_partial` theorems: prove the GLOBAL statement -- for every program (send / when / resolve / break / chain / turn
       sequence) every message sent to a promise is delivered to its resolution exactly once and in send order (an invariant over the
       whole state: multiset of queued + scheduled + delivered messages per promise, with order as a list), including promises resolved to
       promises (CHAINED) and chains of them.
     - 'measured, not proved: _resolve2 is never entered on a promise that is already NEAR/BROKEN': prove it as an invariant of the model
       (or exhibit the program that does it and replay it on the real code).
     - method results that are Deferreds, and flush observers that call flushEventualQueue() themselves, are not generated: add them.
     - the reactor is one pending call of _turn: also model eventually() called from inside a turn at the point where _turn swaps the
       list (the batch snapshot) -- translated statement by statement from eventual.py rather than ~30 shape facts where feasible.
     - observers (observer.py OneShotObserverList / ObserverList used by when()): every past and future observer sees the same outcome -- is
       that a theorem over arbitrary interleavings of when() and resolution?"""),
"C18": ("C18", """     - JSON is abstracted to e_ok measured on the real encoder: model flogfile._make_jsonable / the fallback chain (serialize_wrapper:
       try full event -> per-key fallback -> minimal record) as a function over a small value universe (None/bool/int/float/str/bytes/
       list/tuple/dict with non-str keys/cycles via ids/objects whose repr raises) and prove totality + 'number, level, message survive'.
     - read-back: 'every event written can be read back with the same number, level and message' -- theorem over the model codec
       (write then read = id on those fields), tied by correspondence with flogfile.get_events.
     - subscribers 'see an order-preserving subsequence': theorem exists?  include catch_up + live interleaving and the in-flight window.
     - 'returns strictly increasing event numbers whatever objects are passed' incl. re-entrant msg() from inside an observer /
       __repr__ that logs: model re-entrancy.
     - one model op = one application call + a complete eventual turn: refine so that several calls share a turn (C17's Eventual model)."""),
"C19": ("C19", """     - the gatherer and publisher read paths ('only ever ... read files directly inside'): LogPublisher.get_incident / list_incident_names,
       IncidentGatherer classification/rescan, and `flogtool` tail/dump are they in the model or oracle only?  bring name -> path
       resolution of every remotely reachable entry point into Paths.v (translated guards) with the containment theorem.
     - symlinks: pre-existing symlinks are modelled, 'planted concurrently' are not: add an adversary step that may create a symlink
       at any name between any two OS operations of the service and prove containment (or exhibit the refutation and classify it:
       the property says 'whatever file or incident name the remote peer supplies', a local adversary may be out of scope -- say so).
     - crash model: a crash is 'no further os-level operation'; add 'the process restarts and the service runs again on the leftover
       directory' (recovery: leftover .partial / .tmp from the previous incarnation) and prove the registry/uploads invariants across restarts.
     - registry: save_service_data + load_service_data round trip (what is read back is the complete old or new version) as a theorem about
       the pair, and services.json.tmp leftover handling."""),
"C20": ("C20", """     - `C20_furl_steps_bounded_partial` + known finding furl-quadratic: prove the exact growth (a quadratic upper bound as a theorem of
       the model matcher on the translated AUTH_STURDYREF_RE with .search semantics, and the linear bound for the anchored alternative) so
       that the finding is characterised by theorems both ways.
     - 'sre's work is within a constant factor of the model matcher's step count' is an assumption: make the model matcher a
       backtracking matcher that mirrors sre's strategy (greedy, leftmost alternation, possessive nothing) and validate step counts against
       `sre_compile` debug counters or CPU time ratios per family more tightly.
     - six.ensure_str on bytes input (UTF-8 decoding) is outside the model: lib/Utf8.v exists (C10) -- reuse it: decode_furl on arbitrary
       bytes is total (UnicodeDecodeError is a ValueError -> BadFURLError?) check what the documented error is and whether the code delivers it.
     - hint classification beyond tcp/tor/i2p: convert_legacy_hint, the plugin dispatch in connection.get_endpoint (unknown type, handler
       raising InvalidHintError vs other exceptions), socks / DefaultTCP: translate get_endpoint's dispatch and prove 'endpoint or
       InvalidHintError, never another exception' over the handler result type.
     - SturdyRef equality/hash/ordering: 'equal exactly when tub id and name are equal' incl. location hints ignored, and consistency of
       __hash__ with __eq__, total order of __lt__."""),
}
