F = {
"C01": """1. HIGH: wf_obj_wide admits Python graphs the real code refuses, and non-partial theorems claim delivery (C01_slice_unslice props/C01.v:24,
   _bytes_roundtrip, _end_to_end_any_chunking, _roundtrip_any_vocab, _heap_end_to_end, _keepalive_*).  The hazard clause of wf_gen (Obj.v:398-405)
   sees only a DIRECT ORef to an ancestor; it misses an inline tuple that is itself deferred.  g1: `c=C(); T=(c,); c.x=(T,)` -> storage.unserialize
   raises AssertionError (copyable.py:136); g4: `L=[]; A=(L,); B=(A,); c.x=B; L.extend([B,c])` likewise.  Coq: wf_obj true 0 g1 = false but
   wf_obj_wide true 0 g1 = true, and `unslice true 0 (slice 0 g1) = Some (heap_of ..)` closes by C01_slice_unslice, while doutcome true 0 (slice 0 g1) = 1
   (the Deferred model refuses like the code).  The comment props/C01.v:101-107 ('terms which no Python object graph has') is false.  The harness's
   Python deferred_hazards IS transitive.  Repair: make the Coq guard transitive like deferred_hazards (this is the known-finding region
   oracle/receive-failed/incomplete-tuple-into-copyable, -as-dict-key), add g1 and g4 as `_refuted` witnesses, prove progress of dunslice under
   that guard if it fits.
2. HIGH + FINDING: C01_vocab_switch_in_band (props/C01.v:208) contradicts the code for a table word longer than 100 bytes: parse_table (Obj.v:540)
   accepts any string, ReplaceVocabUnslicer.valueConstraint = ByteStringConstraint(100) (vocab.py:63).  Real run: table [tuple] in force, then
   setOutgoingVocabulary([b"list", b"x"*101]), then [2] sent: receiver reports Violation '101>100', keeps its OLD table, delivers (2,) -- a list
   silently arrives as a tuple; a 100-byte word is fine.  Add the word-length hypothesis translated from the constraint, the `_refuted` witness, the
   oracle (vocab-switch family with words of 99/100/101/1000 bytes) with signature `oracle/vocab-switch/word-longer-than-receiver-limit` (NEW: keep
   as ctx.note and report).
3. MEDIUM: the sender-machine theorems do not pin sharing relative to the Python heap: mutant `scopes_register` = no-op (registerRefID forgets) lets all
   of SendHeapProofs / SendHeapE2E recompile (canon_of shares scopes_register/lookup with the machine); under it [s,s] denotes [[1],[1]].  Add a theorem
   giving an injection from reachable tracked oids to node numbers that preserves kinds and items (so the same heap object is never sliced twice in
   one scope).
4. MEDIUM: no theorem composes receiver_view with Obj.step's KVocab frames ('objects separated by table replacements are delivered' only by vm_compute).""",
"C03": """1. MEDIUM: no universally quantified theorem connects wire bytes to the request that fires.  The nine C03_bytes_* safety theorems (props/C03.v:198-240)
   follow from jst = run (emitted ops) and hold for any receiver built from `emit`, including one that emits nothing; the byte-level functional
   theorems (266-292) are about handle_token / handle_close / violation from a hand-picked a_top.  Mutants in AnswerRecv.v that survive all 19 new
   property theorems: M1 INT delivered as VInt (hdr+1) (AnswerRecv.v:217: request id off by one; fires [[];[1]] instead of [[1];[]]); M2 'answer' and
   'error' opentypes swapped (lines 122-123: fires [[3];[]]).  Repair: ONE composed theorem for answers and its twin for errors: from any reachable idle
   receiver, for every rid with tbl_find rid = Some h and every accepting oracle, the bytes OPEN n "answer" INT rid body CLOSE n, in ANY chunking,
   emit exactly [Complete h] (resp. [Fail h ORemoteError]).
2. MEDIUM: failure kinds are tied to the code only coarsely: both correspondences compare `coarse o` (harness/c03.py:501, 564): OResult->1, ODeadRef->4,
   everything else 0, so remote failure / Violation / send failure are indistinguishable against the real code, and the coarse code hides a disagreement
   between the two model layers (a Violation inside an error sequence is `Error` at operation level, `Fail h OViolation` in AnswerRecv.violation).
   Record the delivered exception class and compare the full code; reconcile the two layers.""",
"C04": """1. MEDIUM: C04_reentrant_issue_is_history (props/C04.v:74) needs cur (run ops) = None; on a busy sender issue_nested returns s1 and silently drops
   `inner` (Order.v:419); hooks of calls that pump dequeues have no model although the manifest says 'on every reachable state'.  Mutant: the busy
   branch pushes the new call at the FRONT of sendq (LIFO): all of OrderProofs recompiles.  issue_nested / release_nested are never evaluated by
   harness/c04.py.  Repair: give `call` a hooks field (or a pump_h) so the nested semantics exists on a busy sender; prove equality with the flat run
   without the cur hypothesis; add a coq_eval of issue_nested / release_nested on the inner-issue family.
2. MEDIUM: C04_order_any_chunking (props/C04.v:195) carries no packetisation content: bstep couples bytes and model only by a COUNT of completed
   objects; the bytes are unrelated to `wire` (three call-bytes with no Issue give f_done = 3, entered = []).  Mutant: fstep counts an object at its
   OPEN instead of the closing CLOSE (OrderBytes.v:16-20): all of OrderBytesProofs recompiles incl. one_deliver_per_call and rechunking.  Repair: state
   the theorem with the chunk bytes equal to encode (concat (map ser wire)); prove completed cs = j for every proper prefix ending inside call j+1
   (a call is delivered exactly when its last byte has arrived, not before).
3. LOW: C04_turn_batch_is_C17_batch uses the state only as length (evq s) (thunk has one constructor): say so in props/C04.v.""",
"C07C11": """(you own C07 and C11; private copy /tmp/vfr-C07C11)
1. HIGH (C11) + FINDING: C11_schema_bound_standard_unslicers (props/C11.v:104) is false of the real code.  lib/StdUnsl.v 'abstains' by dying: std_do_open
   returns OExc 98 for an OPEN copyable inside a container (StdUnsl.v:190), mkchild returns HUnmodelled (:158) whose next check raises; both become
   UFatal, the buffer is emptied and every bound holds trivially.  Neither sbound (:324) nor the theorem excludes those regions: sbound (SChoice alts)
   (:334) is finite and scheck_opentype lets every opentype through for a PolyConstraint.  c = ListOf(ChoiceOf(ByteStringConstraint(3),
   UnicodeConstraint(3))): sbound = Some 18, std_buffer_bounded proves < 1065 for all chunkings; REAL StdBanana with that root constraint and
   OPEN(0) "list" OPEN(1) "copyable" "twisted.python.failure.Failure" STRING(5 000 000) then 100 chunks of 40 kB holds len(buffer) = 4 000 005, not
   abandoned, no violation (PolyConstraint inherits opentypes = None (schema.py:100 TODO); RemoteCopyUnslicer.setConstraint is BaseUnslicer's pass; its
   checkToken bounds no attribute-NAME string (copyable.py:118-121); Failure is always registered).  Repair: sbound returns None for a slot whose
   opentype check admits copyable (SChoice, or t_opens = None with an alternative accepting OPEN), or the theorem carries a `modelled c` guard; add the
   input to corpus/C11 and the oracle: signature `oracle/unbounded-buffering/choice-admits-copyable` is ALREADY listed as known in
   /verif/known_findings.json (I added it): use ctx.fail with exactly that signature so it prints KNOWN-FINDING; add the `_refuted` theorem.
2. MEDIUM (C07): the same abstention-by-dying weakens the standard-unslicer theorems: a legitimate top-level set-vocab sequence: model gives UFatal with
   no UUnmodelled marker; real StdBanana continues with zero root events and then decodes VOCAB with the new table.  C07_standard_unslicers_exactly_one
   (props/C07.v:329) says nroot = 1 and holds there only through the UFatal -> True branch; C07_standard_unslicers_resync likewise; hypothesis R3 is
   false of the real root for vocab sequences.  Repair: make abstention a THIRD result (neither Ok nor Fatal) and state the theorems as
   `not abstains ->`, or model vocab sequences as a no-event root child.
3. LOW-MEDIUM (C07): the CLOSE count check is not pinned: mutant opt_is (Unsl.v:120) ignoring the CLOSE count (any CLOSE n closes the innermost
   non-root unslicer, 'lost sync' gone) lets UnslProofs, UnslFollow, UnslOnce, StdUnslProofs, props/C07.vo, props/C11.vo rebuild unchanged.  Add
   `uhandle_close c n = UFatal (ufatal 0)` when the top frame's uf_open is not Some n.
4. LOW (C07): C07_following_objects_unaffected is determinism modulo three scratch fields (same_but_scratch requires equal u_stack); add: the root frame
   after a violated object equals the root frame before it.
5. observation to judge (C07): banana.py:1015 ensure_str(indexToken): a non-UTF-8 opentype string raises UnicodeDecodeError -> connection dropped with the
   generic text (a protocol error either way): record as a note.""",
"C13": """1. HIGH + FINDING: when the non-decider refuses the decision, the decider has ALREADY switched to RPC: sendDecision does sendBlock; switchToBanana(params)
   immediately (negotiate.py:981-983).  Negotiate.negotiate (lib/Negotiate.v:87) reports (Failed "peer-hung-up", Failed t) and negotiation_error
   (lib/NegotiateProofs.v:275) includes the invented tag "peer-hung-up" -> C13_agreement, C13_agreement_exact, C13_wire_agreement_exact say 'each failure
   is a negotiation error' although the decider created a Broker(version, table) and, when it dialled, its getReference caller gets
   DeadReferenceError, not a negotiation error (probe /tmp/bp/review_C2_probe_c13_hash.py: ranges (3,3,1,1) both sides, decision hash rewritten).
   Repair: give the decider the outcome `Switched p` followed by loss; restate the refused-decision branch as `_refuted` + exact theorem (both abandon
   with a negotiation error iff the failure happens before the decision is sent; after it the decider has switched and sees a lost connection); drop
   "peer-hung-up" from negotiation_error; oracle signature `oracle/decider-switched-before-refusal` is ALREADY listed as known in
   /verif/known_findings.json (I added it: the protocol has no acknowledgement of the decision): use ctx.fail with exactly that signature.
2. HIGH (evidence): the 'hash mismatch' sweep never compares a hash: harness/c13_impl.py:161 `for ra in rs[::3]` selects only vocab range (0,0), the
   decided index is always 0 and code and model both skip the check (vocab_index > 0): 0 of 108 configurations exercise it.  Iterate ra over ranges with
   vocmax >= 1 and judge the Brokers CREATED (recording brokerClass), not Tub.brokers at quiescence.
3. LOW: C13_best_overlap_spec, C13_split_incremental_is_whole, C13_legal_run are short scripts in props/: move to lib, `exact` in props.""",
"C14": """1. MEDIUM: the 'every getReference fires within the timeout' theorems (C14_every_lookup_fires_within_timeout, C14_lookups_accounted, props/C14.v:170-186) are about
   getBrokerForTubRef waiters only (t_waiters from getref_tub, lib/Converge.v:145).  Tub._getReference then calls b.getYourReferenceByName(name) over the
   new Broker: that second leg is in neither the model nor the oracle.  Probe /tmp/bp/review_C2_probe_c14_silent.py: the non-decider dials and reaches a
   Broker; the network then silently drops all traffic (no FIN): the getReference Deferred is still pending after 2600 virtual seconds (the TubConnector
   timer is stopped at brokerAttached; no keepalive / disconnect timer is configured by default); the harness cut() notifies both ends so a silent cut
   after negotiation is never scheduled.  Repair: name the theorems `..._broker_lookup` (or say so precisely in the statement comments and manifest),
   add the second leg to the model by composition with C03's request table (fires on connectionLost / finish only) with the theorem 'after the Broker
   exists the lookup fires iff the answer arrives or the connection is lost', and add the silent-drop schedule to the oracle as a NOTE
   (`note: lookup pending on a black-holed established connection`; the property's 'within the connection timeout' is about connection establishment;
   not a ctx.fail).
2. LOW: C14_hello_carries_own_record (lib/ConvergeLayersProofs.v:34) is true by construction (o_priv[n] = rec tgt with a constant rec): say so, or make the
   offer table mutable per target so the shared-dict mutant is expressible in the same model.""",
"C18": """1. HIGH (code defect, FIXED in /repo 7a22019 while you read this): msg('a', num='x') / num=None buffers a non-integer event number;
   incident.py:111 and publish.py:41 sorted by e['num'] -> TypeError -> the incident (and every later one) was never recorded.  The fix makes both sorts
   total: key = e['num'] if isinstance(e['num'], int) else -1.  The model excluded it: e_num : Z (lib/LogBuf.v:23), sort_by_num total.  Repair: make e_num
   optional / possibly non-integer in LogBuf with the translated sort key (g_logbuf must read the new key expression from both sites and fail closed
   otherwise; the old `a['num']` form must translate to a FAILING sort stage so a return of the defect gives a model that predicts the loss), restate
   C18_one_bad_event_harmless / C18_nothing_abandoned / C18_incident_file_reads_back over it, add the oracle family (num= 'x', None, 1.5, a list, an
   object; in the history before a trigger; catch_up subscription) with signature `oracle/incident-lost-noninteger-num` (listed as FIXED in
   known_findings.json: a return = VIOLATION with input) and corpus witnesses.
2. MEDIUM: every read-back theorem is guarded by is_event (lib/LogJsonProofs.v:130: K_message |-> PStr m), which excludes `format=` events (no 'message'
   key, log.py:229) and events whose level is not an int.  State field preservation for format events too (number, level, format string and its named
   arguments), and say the rendered text is not preserved when a value needed the fallback encoder.
3. MEDIUM: the file theorems demand is_event of ALL lines (Forall), so one odd buffered event makes the theorem silent about every other line -- the
   opposite of the sentence.  Export the per-line Forall2 form (the reviewer proved it in 8 lines from serialize_total and event_fields_survive).
4. LOW: C18_incident_file_reads_back requires c_trailing = false but the default reporter is the trailing one; C18_msg_total rests on msg_catch_all:
   log.py:206 has `except Exception` so a __str__ raising KeyboardInterrupt escapes msg (say so); six proofs in props/C18.v are short scripts (:49 :59 :71
   :109 :136 :163 :296): move to lib.""",
"C19": """1. HIGH (code defects, FIXED in /repo 81004d7 and f12f98a while you read this): LogPublisher.list_incident_names yielded symlinked entries so
   remote_list_incidents / IncidentSubscription.catch_up read the trigger of the link's target (publish.py:200-223); IncidentObserver.connect read
   basedir/latest through a symlink and sent it as since= (gatherer.py:345-348).  The fixes: in list_incident_names `if os.path.islink(fullname): continue`
   (with a comment) before the yield; in connect `if not os.path.islink(statefile): latest = open(statefile, "r").read().strip()` inside the try.
   C19_listing_contained (props/C19.v:228, model UploadHist.v:121) was lexical only ('every file reported AND OPENED' in the comment, nothing about
   links).  Repair: op-list / `followed` model for the listing read and for connect's state read, guard flags translated from the new text (fail closed
   otherwise; the old forms must translate to the UNGUARDED flag), theorems, oracle with planted links at incident-*.flog[.bz2] and latest: signatures
   `oracle/publisher-listing-follows-symlink` and `oracle/gatherer-state-read-follows-symlink` (both listed FIXED in known_findings.json), corpus
   witnesses.
2. HIGH + FINDING: a sequential, names-only `.partial` collision destroys a published file and the theorems exclude it silently
   (C19_upload_history_sequential's `~ In q (utmps es)` :171; the frame q <> final++ext of C19_atomic_publish :53): putfile("x.partial", [COMPLETE])
   returns ok; putfile("x", [b"aa", RuntimeError]) then leaves the directory EMPTY (the published x.partial was x's temporary: truncated, then unlinked by
   the error path); with a crash instead, x.partial holds a prefix of another upload under a published final name.  The model reproduces it.  Repair:
   `_refuted` theorem with that history, the exact guard in the positive theorem ('no final name is another upload's temporary'), the pair added to the
   harness history scenarios, oracle signature `oracle/upload-name-is-another-uploads-temporary` (ALREADY listed as known in known_findings.json: use
   ctx.fail with exactly that signature).
3. MEDIUM: C19_gatherer_symlinks / C19_publisher_symlinks are implications keyed on generated flags: setting all three flags to false (what reverting the
   fixes produces) leaves all 31 theorems closed; the first conjunct of C19_publisher_symlinks is true by unfolding; comments :246 :264 ('on the pinned
   tree neither guard exists') are stale.  Add unconditional theorems applied with eq_refl to the generated flags (so reverting a fix breaks the proof).
4. LOW: Inv forbids every hard link in the directory; only the temporaries need to be unshared.""",
"C20": """1. MEDIUM: the Tor handler's `Waiting` outcome (TorState.outcome: get_endpoint's Deferred not yet fired) has no counterpart in the hint-list model:
   ConnectAll.houtcome (lib/ConnectAll.v:19) has only HPending (endpoint obtained, connect pending), HConnectFails, HRaises; C20_tor_* and
   C20_connect_all_outcome / C20_no_stall are about different objects; no theorem says that a hint list containing a Tor hint whose Tor never comes up is
   reported and does not stall (d sits in pendingConnections but not in validHints; connectionTimedOut -> cancel -> _connectionFailed is the asynchronous
   path).  Add HWaiting (pending, not valid), `usable` := any pending or waiting hint, the timer path, and the composed theorem; correspondence on the
   real TubConnector with a Tor that never comes up (the drivers of oracle_tor_tub exist).
2. LOW: say next to C20_tor_exception_origin that with TorFails e the handler ends in the Tor's own exception (the sentence 'never another exception' is
   weakened there to exception-origin + containment by C20_hint_status_is_own).""",
"C06": """1. HIGH (model): the model handles one message atomically; the code does not.  step/run (lib/Reach.v:304-332) and step_T/run_T (lib/ReachDeep.v:106-136) do the
   clid lookup and the delivery in one step; CallUnslicer resolves the clid at PARSE time (call.py:474-488), scheduleCall/doNextCall (broker.py:561-596)
   deliver in a later turn.  Repro A (/tmp/review-B2-keep/probe_pipeline.py): grant clid 1, then feed decref(1,1) and call(1,"hi") in ONE dataReceived:
   real code: remote_decref, then remote_hi entered on the released object; model: [Enter remote_decref; Reject]; the same bytes one message per chunk give
   Reject: chunk-dependent.  Repro B: getReferenceByName + call(1,..) in one chunk: the model enters, the code refuses.  C06_calls and
   C06_exports_were_granted do not transfer to the code; C06_translated_history equates two models that are both atomic; the harness's System.do feeds
   one message then one turn.  Repair: split Msg into Parse (enqueue the RESOLVED object) and a FIFO Deliver, re-prove the reachability theorems with the
   honest statement (an object is entered only if it was held by the peer WHEN THE CALL WAS PARSED), make the harness feed >= 2 messages per
   dataReceived, and report Repro A to me as a candidate finding against clause (b) with signature `oracle/released-id-entered-when-pipelined` kept as a
   ctx.note (the peer itself sent decref then call; both were in flight).
2. MEDIUM: no theorem says unregisterReference revokes a name: `Unregister` as a no-op (Reach.v:281-285) survives all 40 theorems once a brittle tactic at
   ReachProofs.v:1018 is made robust; C06_revoked_name_refused covers handler names only.  Add the theorem.
3. LOW: names_event's third clause (ReachProofs.v:988) lets the name "" enter through any lookup (why the n <> "" guard is needed): say so.""",
"C05": """1. MEDIUM: the paths to switchToBanana are a closed-world assumption the translator does not check: the model assumes only sendDecision and handleDECIDING
   reach it (lib/IdentityBytes.v:60-128; g_identity.py gen_switch / gen_phases); connectionMade has `else: self.switchToBanana({})` (negotiate.py:328-334)
   guarded only by the class constant doNegotiation = True (negotiate.py:145) which g_identity.py never mentions: with doNegotiation = False, or a
   switchToBanana call appended to sendHello, the generated IdentityGen.v is byte-identical and every theorem still 'holds' over a source that registers
   self.target unchecked.  Repair: enumerate the callers of switchToBanana, sendDecision and brokerAttached over the whole package (fail closed on a new
   one) and require doNegotiation to be the constant True, never assigned anywhere.  Add a mutation test for both.
2. MEDIUM/LOW: the translated plaintext guards are opaque to every universal theorem: a mutant in which the listener enters ENCRYPTED although the GET guard
   failed survives everything except Example exb_listener_second_get; add the lemma relating the guard to the session model's server_lookup.
3. LOW: C05_client_check_is_tubref_eq (props/C05.v:338) is exported in the completeness direction only; safety needs the converse (three lines); add the
   composition lemma feeding b_attached (brecv_all ..) into the table and key models (/tmp/review-B2-keep/scratch1.v has a derivable `compose`).""",
"C02C12": """(you own C02 and C12; private copy /tmp/vfr-C02C12)
1. HIGH (C02; code defect at the text site FIXED in /repo 66cc69a while you read this): UnicodeUnslicer.receiveChild now does
   `try: self.string = obj.decode("UTF-8") except UnicodeDecodeError: raise Violation("the body of a unicode sequence is not UTF-8")`.  The model delivered
   where the code lost the connection: recv_text (coq/lib/Schema.v:259) returns RDeliver (OText bs) for any STRING body; harness/c02.py:131 (ascii_only)
   rewrites every text value to ASCII.  Your translator already has the flag unicode_unslicer_undecodable_violation: it must now read true from the new
   text; carry bytes in recv_text and apply utf8_valid; add non-UTF-8 text VALUES to the C02 streams (argument, nested, answer) with signature
   `oracle/non-utf8-text-body-drops-connection` (listed FIXED in known_findings.json: a return = VIOLATION with input) and corpus witnesses.
2. HIGH (C02) + FINDING, same family, NOT fixed: ReferenceUnslicer does six.ensure_str on the my-reference interface name and URL and the their-reference
   URL (referenceable.py:227, :231, :718) with no try: a my-reference whose interface name is b"\\xa8a" loses the connection
   (/tmp/review-B2-keep/repro_utf8b.py); recv_myref (Schema.v:299) returns RDeliver (ORemote name) for any name bytes.  Model it (RAbort via a translated
   *_nontext_violation flag = false), add the streams, oracle signature `oracle/non-utf8-reference-name-drops-connection` (ALREADY listed as known in
   known_findings.json: use ctx.fail with exactly that signature).
3. MEDIUM (C12): the call-level theorems (C12_call_delivered, _stream, C12_call_sequence_delivered, props/C12.v:52-73) are stated over send_call = map slice:
   real callRemote sends the second occurrence of a list/dict/set/tuple within one call as OPEN reference (ArgumentSlicer is a ScopedSlicer), so for m(l, l)
   the theorems describe a stream the sender never emits.  Restate c12_call over Forall2 (ser voc) a p plus the keyword analogue (recv_pos_honest /
   recv_kw_honest need only c12_ser in place of c12_main).
4. LOW: g_schema.py:_au_reference (:508) is a hand-written Python copy of Schema.au_child: the translator fits parameters against that copy, not the Coq
   definition; say so in the manifest.  attr_state_ok (Schema.v:833) is stricter than the code for Optional attributes (used only in `_refuted` witnesses):
   say so.""",
"C10": """1. HIGH + FINDING: 'No hypothesis: this is the full statement' (C10_failure_fits props/C10.v:28; via send_error_total lib/CalleeProofs.v:12 also
   C10_every_call_answered_once :330) is contradicted by the code: g_failure.py:375 maps reflect.qual(obj.type), obj.parents and getTraceback() to
   ready-made texts, so the model treats them as total.  A remote method raising `type("NoMod", (Exception,), {"__module__": None})` makes reflect.qual
   raise TypeError at call.py:820 inside produce: both Brokers are disconnected, siblings and later calls get DeadReferenceError
   (/tmp/review-B2-keep/probe_nomodule.py).  Repair: make e_type / e_parents a `res`, state the hypothesis + `_refuted` theorem, add the class to the
   catalogue, oracle signature `oracle/sibling-affected/exception-class-without-module` (ALREADY listed as known in known_findings.json: use ctx.fail with
   exactly that signature).
2. MEDIUM: no universal theorem says WHICH reply the callee sends: outcome_ok (CalleeProofs.v:20) only requires exists m, msg_req m = r; mutants 'raising
   method answered with answer' and 'checkResults always Ok' are killed only by Example ex_history; 'KDoCall errs only when the log cannot render' survives
   everything.  /tmp/review-B2-keep/scratch_kind.v holds a 12-line reply_kind theorem that compiles against the current model (MError exactly when
   ~ready \\/ raises \\/ (schema /\\ ~result_ok)): adopt it.
3. LOW: C10_receiver_rejections_contained unchanged from round 1 (cdown constant; a counting receiver that ignores ABORT survives after a one-line script
   fix at SendProofs.v:399): either delete it in favour of the BananaRecv `_partial` pair or add the theorem that kills that mutant; corr_callee
   (harness/c10.py:1024) skips every batch that disconnected, so the crash path of lib/Callee.v is never compared with the code: compare it.""",
}
