#!/usr/bin/env python3
"""Confirm a seeded change and run our checks against it.

usage: seedtest.py <seed-id> <property> <patch> <demo.py> [--also Cxx,Cyy] [--meta meta.json]

Steps (all in a scratch copy of /repo under /tmp, removed afterwards):
  1. demo on the clean copy must exit 0;
  2. apply the patch; the 384-test baseline must still pass; demo must exit != 0;
  3. run ./check <property> (and --also) with VERIF_REPO pointing at the patched copy; record exit status and VIOLATION lines;
  4. re-run the checks against /repo afterwards is NOT needed: coq/gen is regenerated at the start of every check.
Writes /verif/seeded/<seed-id>/{patch.diff,demo.py,meta.json}.
"""
import argparse, json, os, shutil, subprocess, sys, time

VERIF = os.path.dirname(os.path.dirname(os.path.abspath(__file__)))


def sh(cmd, **kw):
    return subprocess.run(cmd, shell=True, capture_output=True, text=True, **kw)


def main():
    ap = argparse.ArgumentParser()
    ap.add_argument("seed_id")
    ap.add_argument("prop")
    ap.add_argument("patch")
    ap.add_argument("demo")
    ap.add_argument("--also", default="")
    ap.add_argument("--meta")
    ap.add_argument("--skip-baseline", action="store_true")
    ap.add_argument("--out", default="/verif/seeded")
    a = ap.parse_args()
    scratch = "/tmp/seedrun_%s" % a.seed_id
    shutil.rmtree(scratch, ignore_errors=True)
    sh("git -C /repo worktree prune; git -C /repo worktree add -q --detach %s HEAD" % scratch)
    out = dict(seed=a.seed_id, property=a.prop, ran=[])
    env = dict(os.environ, PYTHONPATH=scratch + "/src", PYTHONHASHSEED="0")
    try:
        shutil.copy(a.demo, scratch + "/demo.py")
        r = sh("cd %s && timeout 120 /venv/bin/python demo.py" % scratch, env=env)
        out["demo_clean_rc"] = r.returncode
        out["ran"].append("demo on clean tree: rc=%d" % r.returncode)
        r = sh("cd %s && git apply %s" % (scratch, os.path.abspath(a.patch)))
        if r.returncode != 0:
            out["error"] = "patch does not apply: " + r.stderr[-500:]
            print(json.dumps(out, indent=1))
            return 2
        if not a.skip_baseline:
            r = sh("python3 %s/tools/baseline.py %s" % (VERIF, scratch))
            if "missing from baseline: 0" not in r.stdout:
                r = sh("python3 %s/tools/baseline.py %s" % (VERIF, scratch))   # one retry: rare flaky test
            out["baseline"] = r.stdout.strip().splitlines()[-1] if r.stdout.strip() else r.stderr[-300:]
            out["baseline_ok"] = "missing from baseline: 0" in r.stdout
            out["ran"].append("baseline with patch: " + out["baseline"])
        r = sh("cd %s && timeout 120 /venv/bin/python demo.py" % scratch, env=env)
        out["demo_patched_rc"] = r.returncode
        out["demo_patched_out"] = (r.stdout + r.stderr)[-600:]
        out["ran"].append("demo with patch: rc=%d" % r.returncode)
        out["confirmed"] = out["demo_clean_rc"] == 0 and out["demo_patched_rc"] not in (0, 124) and out.get("baseline_ok", True)
        checks = {}
        for pid in [a.prop] + [x for x in a.also.split(",") if x]:
            t0 = time.time()
            r = sh("cd %s && VERIF_EVIDENCE_DIR=%s_evidence VERIF_REPO=%s ./check %s" % (VERIF, scratch, scratch, pid))
            lines = [l for l in r.stdout.splitlines() if l.startswith(("VIOLATION", "KNOWN-FINDING"))]
            checks[pid] = dict(rc=r.returncode, wall_s=round(time.time() - t0, 1),
                               violations=[l[:300] for l in lines if l.startswith("VIOLATION")])
            out["ran"].append("VERIF_REPO=<patched> ./check %s: rc=%d, %d VIOLATION line(s)" % (pid, r.returncode, len(checks[pid]["violations"])))
        out["checks"] = checks
        out["detected_by"] = [p for p, c in checks.items() if c["rc"] == 1]
        out["detected_with_input_by"] = [p for p, c in checks.items() if any("no-failing-input-found" not in v for v in c["violations"])]
    finally:
        sh("git -C /repo worktree remove --force %s" % scratch)
        shutil.rmtree(scratch, ignore_errors=True)
        shutil.rmtree(scratch + "_evidence", ignore_errors=True)
    d = os.path.join(a.out, a.seed_id)
    os.makedirs(d, exist_ok=True)
    if os.path.abspath(a.patch) != os.path.join(d, "patch.diff"):
        shutil.copy(a.patch, os.path.join(d, "patch.diff"))
    if os.path.abspath(a.demo) != os.path.join(d, "demo.py"):
        shutil.copy(a.demo, os.path.join(d, "demo.py"))
    meta = {}
    if a.meta and os.path.exists(a.meta):
        try:
            meta = json.load(open(a.meta))
        except Exception as e:
            meta = {"meta_unreadable": str(e)}
    meta.update(out)
    json.dump(meta, open(os.path.join(d, "meta.json"), "w"), indent=1)
    print(json.dumps({k: meta[k] for k in ("seed", "property", "confirmed", "detected_by", "detected_with_input_by") if k in meta}))
    return 0


if __name__ == "__main__":
    sys.exit(main())
