#!/bin/bash
# confirm the two round-N seeds an agent left in /tmp/seed${SEEDROUND:-5}/<Cnn>-out and run the current checks against them
# usage: tools/confirm_seed.sh <Cnn> [round-tag, default r5] [--also Cxx]
P=$1; R=${2:-r5}; ALSO=$3
W=/tmp/vfc-$P
rm -rf $W; mkdir -p $W
rsync -a --exclude .git --exclude replays --exclude evidence /verif/ $W/
mkdir -p $W/replays $W/evidence
for s in 1 2; do
  d=/tmp/seed${SEEDROUND:-5}/$P-out
  if [ -f $d/s$s.diff ] && [ -f $d/s${s}_demo.py ]; then
    python3 $W/tools/seedtest.py $P-${R}s$s $P $d/s$s.diff $d/s${s}_demo.py --meta $d/s${s}_meta.json --out /verif/seeded $ALSO
  else
    echo "{\"seed\": \"$P-${R}s$s\", \"missing\": true}"
  fi
done
rm -rf $W
